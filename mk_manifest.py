#!/usr/bin/env python3
# Regenerates MANIFEST.json from the table below (kept here so the manifest is always schema-valid).
import json
C={}
def chk(pid, text, note, tech, ref="DESIGN.md section 6"):
    C[pid]={
      "property_id":pid,
      "quick_cmd":f"./mc/check.sh {pid} quick",
      "thorough_cmd":f"./mc/check.sh {pid} thorough",
      "evidence_file":f"/verif/evidence/{pid}.json",
      "replay_cmd_template":"./mc/mxjcheck replay {path}",
      "engine":"mxjcheck",
      "level_claimed":{"category":"model_checking","text":text,"design_ref":ref+" "+pid},
      "level_note":note,
      "technique":tech}
TB="Trusted: Go toolchain and `go build -overlay`; the AST rewriter (validated in setup by a plain-vs-instrumented differential run); the reference model named below; encoding/xml, encoding/json, strconv as reference tokenisers. "
chk("C01","Bounded exhaustive exploration of the real XML decoder: every element tree up to an element bound, decorated with up to 1-2 decorations (attributes, text at every position, CDATA, comments, PIs, renamed/namespaced/case-folded names, attribute/child collisions), rendered in every rendering variant, under all 768 decoder configurations; each decode compared with a reference Map computed from the abstract tree; all reader/raw/x2j entry points must agree.",
    TB+"Reference: mc/harness/ref_xml.go. Bounds: <=4 elements (quick) / 5 (thorough), fan-out<=3, <=2 decorations, names {a,b}+variants.",
    "explicit small-scope enumeration of (document, rendering, configuration) on the implementation with a lock-step reference model")
chk("C07","Bounded exhaustive exploration of the real ValuesForPath/ValueForPath/Exists code: every Map template up to a node bound x every path up to a step bound (per-Map depth-first path enumeration), each execution compared with a reference path semantics; map-iteration order is owned by build-time instrumentation and explored (ascending, descending, and every single deviation for wildcard paths).",
    TB+"Reference: mc/harness/ref_path.go. Bounds: Map nodes <= 5 (quick) / 6 (thorough), path length <= 3 / 4, keys {a,b,k}, plus a wide family beyond the initial result capacity.",
    "explicit enumeration of inputs + deviation-bounded DFS over map-order choice points on the implementation, lock-step reference model")
chk("C08","Bounded exhaustive exploration of ValuesForKey/ValueForKey/PathsForKey/PathForKeyShortest and of sub-key filtering in ValuesForKey/ValuesForPath/Exists: every Map template up to a node bound x every key x every set of 1-2 sub-key conditions (typed, wildcard, negated, both field separators); results compared with a reference search, path set and filter predicate; consistency of values-through-paths with ValuesForKey; all map-iteration orders within a deviation bound (including the order of the condition table).",
    TB+"Reference: mc/harness/c08.go (refKey, refKeyPaths, refSubKeys). Bounds: <=6/7 nodes (search), <=5/6 nodes with typed leaves (filters). One open known finding (list-in-list consistency).",
    "explicit enumeration of inputs + deviation-bounded DFS over map-order choice points on the implementation, lock-step reference model")
chk("C09","Bounded exhaustive exploration of LeafNodes/LeafPaths/LeafValues: every Map template up to a node bound over ordinary, attribute-prefixed, text-key, empty and special-character keys (null leaves included) and Maps decoded from the XML universe, under 4 attribute prefixes x no-attributes x dot-notation, in ascending and descending map order; compared with a reference leaf enumeration, projections checked, and every leaf path resolved through ValuesForPath.",
    TB+"Reference: mc/harness/c09.go (refLeaves). Bounds: <=5/6 nodes; resolution clause restricted as the property states.",
    "explicit small-scope enumeration of (Map, configuration) on the implementation with a lock-step reference model; owned map order")
chk("C10","Bounded exhaustive exploration of UpdateValuesForPath: every Map template up to a node bound x new values (map and string forms, typed) x every path of <=3 steps over keys and wildcards in both addressing forms x sub-key sets; relational oracle on a deep copy (frame, location against a reference addressed set, sub-keys, count, count-copies via ValuesForPath); map order explored (ascending, descending, every single deviation for wildcard paths).",
    TB+"Reference: mc/harness/c10.go (refLocs, c10Addressed). Bounds: <=5/6 nodes, paths <=3 steps.",
    "explicit enumeration of inputs + deviation-bounded DFS over map-order choice points on the implementation, relational oracle against a reference model")
chk("C11","Bounded exhaustive exploration of SetValueForPath/Remove/RenameKey: every Map template up to a node bound (null leaves, no empty lists) x all dot-paths of <=3 segments x new names; oracle: structural diff against a deep copy plus a write monitor on the frozen receiver (no store on failure), exactly-one-entry frame and post-conditions on success, liveness on the nested-map domain, refusal of rename onto an existing (possibly null) sibling at any depth.",
    TB+"Write monitor = build-time instrumentation of every map/slice store in mxj. Bounds: <=5/6 nodes.",
    "explicit small-scope enumeration of (Map, operation) on the implementation; differential before/after oracle + store monitor")
chk("C12","Bounded exhaustive exploration of NewMap: every Map template up to a node bound x every single key pair (plain/wildcard/indexed old paths, dotted new paths, shorthand, malformed forms) and every list of two pairs from a reduced set incl. equal/extending new paths; oracle: receiver deep-equal AND no monitored store into any container reachable from it (decides aliasing writes), malformed => error, exact content vs a reference projection when new paths do not overlap.",
    TB+"Write monitor as in C11. Content oracle uses ValuesForPath on a pristine copy (validated by C07). Bounds: <=5/6 nodes (single pairs), <=4/5 (pair lists).",
    "explicit small-scope enumeration of (Map, key pairs) on the implementation; store monitor + reference projection")
chk("C02","Bounded exhaustive exploration of the XML round trip on the real decoder and encoders: every element tree up to an element bound with <=1 decoration under all 512 symmetric option configurations (incl. both escaping switches requested in either order), 2 decorations under configurations with <=2 deviations; Xml and XmlIndent with three prefix/indent pairs; oracle: well-formed single-root output, decode(encode(m1)) == m1, and an independent reference decode of the re-encoded text equals m1; map order owned (ascending, descending, single deviations on small documents); returned bytes retained and re-checked after later calls.",
    TB+"Reference: mc/harness/ref_xml.go + parseXElem. Bounds: <=4/5 elements, <=2 decorations. One open known finding (space indent under keep-spaces).",
    "explicit small-scope enumeration of (document, configuration, encoder) on the implementation; differential round-trip oracle + lock-step reference model; owned map order")
chk("C03","Bounded exhaustive exploration of the XML encoders on JSON-shaped values: every value template up to a node bound over ordinary, attribute and text keys with strings, blanks, empty strings, numbers, booleans, nulls, empty/nested/mixed lists, as multi-key root, single-key root and AnyXml argument (default/explicit tags), for Map.Xml, Map.XmlIndent, AnyXml, AnyXmlIndent, j2x.JsonToXml, plus a special-character family under XMLEscapeChars(true); oracle: well-formed single-root output whose decode equals the reference decode of the abstract document the encoding rules denote.",
    TB+"Reference: mc/harness/c03.go (jsonToItems) + ref_xml.go. Bounds: <=5/6 nodes. Attribute/text entries never stand where an element name is required.",
    "explicit small-scope enumeration of (value, encoder) on the implementation with a lock-step reference model; owned map order")
chk("C04","Bounded exhaustive exploration of the sequence-preserving codec: every element tree up to an element bound (all sibling interleavings) with <=2 decorations (attributes in both orders incl. namespaced and xmlns, one leading text run plain/CDATA with special characters, one comment / directive / PI at every position, renamed and prefixed elements) through NewMapXmlSeq->Xml, ->XmlIndent, BeautifyXml, BeautifyXml->NewMapFormattedXmlSeq->Xml and a second encoding of the same MapSeq; oracle: the raw token stream of the output equals the stream the abstract tree denotes (exact for Xml; modulo whitespace-only character data for indented forms, text-only elements exact).",
    TB+"Reference: treeTokens/rawTokens in mc/harness/xmlutil.go. Bounds: <=4/5 elements, <=2 decorations (on <=3/4 elements).",
    "explicit small-scope enumeration of (document, codec path) on the implementation; token-stream reference model; owned map order with deviation-bounded DFS")
chk("C05","Bounded exhaustive exploration of escaping: every word of <=3/4 tokens over an alphabet of the five XML special characters, blanks, already-escaped sequences, ]]> and <![CDATA[, placed as element text, attribute value, text beside an attribute and text before a child, for the four XML encoders, under encoder-side escaping, decoder-side escaping (reached by all five documented call histories of the two switches), and escaping off with the validity check on/off; oracle: well-formed output denoting exactly the original values; error-or-well-formed when unescaped.",
    TB+"Bounds: words <=3 (quick) / 4 (thorough) tokens over 15 tokens.",
    "explicit enumeration of (string, position, encoder, option history) on the implementation; differential decode oracle")
chk("C06","Bounded exhaustive exploration of the JSON codec: encode side - every Map template up to a node bound plus three structures for every word of <=3 tokens over an alphabet with <, >, &, backslash, quote, the literal six-character \\u003c/\\u003e/\\u0026 texts, control characters, U+2028 - through Json, JsonIndent (3 indent pairs), Copy, j2x.MapToJson in default and safe encoding (valid JSON, lossless, literal/escaped policy, byte-identical to encoding/json in safe mode, results retained and re-checked after later calls); decode side - every byte string of <=5/6 tokens over a 13-token JSON alphabet with JsonUseNumber off/on against encoding/json's Decoder.",
    TB+"Reference: encoding/json. Bounds as stated; ambiguity set: top-level null; array followed by trailing bytes.",
    "explicit enumeration of inputs on the implementation; differential oracle against encoding/json; retained-result oracle over call histories of length 2-5")
chk("C14","Bounded exhaustive exploration of casting: ten document templates placing a leaf spelling in element, attribute, text-key, text-before/after-child, list, root and sibling positions x ~190 spellings (64-bit boundary integers, decimal/exponent/hex floats, overflow, every case variant and signed spelling of nan/inf/infinity, ParseBool-accepted and near-miss booleans, text) x all 16 cast-option combinations x skip function {none, element, attribute, text key} x simple-as-map x {Map, MapSeq} decoders; oracle: structure/keys equal to the uncast decode, uncast leaves are strings, each cast leaf equals the documented cast of its text, Json() succeeds unless CastNanInf is on, x2j-wrapper.DocToJson agrees.",
    TB+"Reference: refCast in mc/harness/ref_xml.go (strconv as parser). Ambiguity: skip-function key for text preceding children.",
    "explicit enumeration of (template, spelling, configuration, decoder) on the implementation; differential cast/uncast oracle + reference cast")
ALL=["C%02d"%i for i in range(1,21)]
na=[{"property_id":p,"reason":"check not built yet in this round (planned: see DESIGN.md section 6); will be claimed once its harness is committed"} for p in ALL if p not in C]
m={"version":1,
 "setup_cmd":"./mc/setup.sh",
 "hooks":{"guard":"none (build-time overlay)","enable":"instrumentation is generated from /repo's working tree on every run and applied with `go build -overlay`; /repo is never edited for hooks","baseline_off_cmd":"cd /repo && GOFLAGS=-mod=mod go test -json -vet=off -count=1 -timeout 25m ./...","source_commits":[],"add_only":True},
 "engines":[{"name":"mxjcheck","path":"/verif/mc","serves_properties":sorted(C),"kind_free_text":"hand-written explorer: small-scope input enumeration (E-input), deviation-bounded stateless DFS over choice points (E-choice: map order, reader answers, scheduler, fault offsets), explicit-state BFS over the option machine (E-state); runs the real mxj code instrumented at build time"}],
 "checks":[C[k] for k in sorted(C)],
 "notes":"See DESIGN.md. Exit 0 held / known findings only; 1 VIOLATION; 2 check broken. Known findings: known_findings.jsonl.",
 "not_applicable":na}
json.dump(m,open('/verif/MANIFEST.json','w'),indent=1)
print("checks:",sorted(C))
