// Package instrument rewrites the non-test sources of mxj (root package and the
// three legacy sub-packages) so that every source of nondeterminism is routed
// through the hook runtime zzverifrt, and produces a `go build -overlay` file.
// /repo is never modified.
package instrument

import (
	"bytes"
	"encoding/json"
	"fmt"
	"go/ast"
	"go/format"
	"go/importer"
	"go/parser"
	"go/token"
	"go/types"
	"os"
	"path/filepath"
	"sort"
	"strconv"
	"strings"
)

const (
	ModPath = "github.com/clbanning/mxj/v2"
	RtPath  = ModPath + "/zzverifrt"
	rtName  = "zzverifrt"
)

// Report summarises what the rewriter did.
type Report struct {
	Files          int
	MapRanges      int
	Funcs          int
	GlobalVars     int
	GlobalSites    int
	StoreSites     int
	UnmonitoredSto []string
	Sites          []string // yield site id -> description
	Globals        []string // global id -> qualified name
}

// Result of Build.
type Result struct {
	OverlayPath string
	Dir         string // temp directory holding rewritten files
	Report      Report
}

type pkgInfo struct {
	dir     string // absolute
	rel     string // "" for root
	short   string // prefix for qualified global names
	files   []*ast.File
	names   []string // file paths
	pkg     *types.Package
	info    *types.Info
	globals []*types.Var
}

type rewriter struct {
	fset    *token.FileSet
	p       *pkgInfo
	rep     *Report
	gid     map[*types.Var]int
	usedRt  bool
	curFunc string
	plain   bool
}

type chainImporter struct {
	std  types.Importer
	pkgs map[string]*types.Package
}

func (c *chainImporter) Import(path string) (*types.Package, error) {
	if p, ok := c.pkgs[path]; ok {
		return p, nil
	}
	return c.std.Import(path)
}

// Build instruments the tree at src and writes rewritten files plus overlay.json into outDir.
// rtFile is the path of the hook runtime source (mc/rt/rt.go). plain=true generates only the
// runtime package and state dumps (no rewrites): the "uninstrumented" build used for differential
// validation and the free-running race pass.
func Build(src, outDir, rtFile string, plain bool) (*Result, error) {
	src, _ = filepath.Abs(src)
	fset := token.NewFileSet()
	res := &Result{Dir: outDir}
	rep := &res.Report
	rep.Sites = []string{"iterator"} // site 0

	subs := []struct{ rel, short string }{{"", "mxj"}, {"j2x", "j2x"}, {"x2j", "x2j"}, {"x2j-wrapper", "x2jw"}}
	imp := &chainImporter{std: importer.ForCompiler(fset, "source", nil), pkgs: map[string]*types.Package{}}
	var pkgs []*pkgInfo
	for _, s := range subs {
		p := &pkgInfo{dir: filepath.Join(src, s.rel), rel: s.rel, short: s.short}
		ents, err := os.ReadDir(p.dir)
		if err != nil {
			return nil, err
		}
		for _, e := range ents {
			n := e.Name()
			if e.IsDir() || !strings.HasSuffix(n, ".go") || strings.HasSuffix(n, "_test.go") || strings.HasPrefix(n, "zz_verif") {
				continue
			}
			full := filepath.Join(p.dir, n)
			f, err := parser.ParseFile(fset, full, nil, parser.ParseComments)
			if err != nil {
				return nil, fmt.Errorf("parse %s: %v", full, err)
			}
			if f.Name.Name == "main" {
				continue
			}
			p.files = append(p.files, f)
			p.names = append(p.names, full)
		}
		p.info = &types.Info{
			Types:      map[ast.Expr]types.TypeAndValue{},
			Uses:       map[*ast.Ident]types.Object{},
			Defs:       map[*ast.Ident]types.Object{},
			Selections: map[*ast.SelectorExpr]*types.Selection{},
		}
		conf := types.Config{Importer: imp}
		path := ModPath
		if s.rel != "" {
			path = ModPath + "/" + s.rel
		}
		pkg, err := conf.Check(path, fset, p.files, p.info)
		if err != nil {
			return nil, fmt.Errorf("type-check %s: %v", path, err)
		}
		p.pkg = pkg
		imp.pkgs[path] = pkg
		pkgs = append(pkgs, p)
	}

	// global variable ids
	gid := map[*types.Var]int{}
	for _, p := range pkgs {
		sc := p.pkg.Scope()
		names := sc.Names()
		sort.Strings(names)
		for _, n := range names {
			if v, ok := sc.Lookup(n).(*types.Var); ok && n != "_" {
				gid[v] = len(rep.Globals)
				rep.Globals = append(rep.Globals, p.short+"."+n)
				p.globals = append(p.globals, v)
			}
		}
	}
	rep.GlobalVars = len(rep.Globals)

	overlay := map[string]string{}
	if err := os.MkdirAll(outDir, 0o755); err != nil {
		return nil, err
	}
	for _, p := range pkgs {
		for i, f := range p.files {
			rep.Files++
			if plain {
				continue
			}
			rw := &rewriter{fset: fset, p: p, rep: rep, gid: gid}
			rw.file(f)
			f.Comments = nil
			stripDocs(f)
			if rw.usedRt {
				addImport(f)
			}
			var buf bytes.Buffer
			if err := format.Node(&buf, token.NewFileSet(), f); err != nil {
				return nil, fmt.Errorf("print %s: %v", p.names[i], err)
			}
			out := filepath.Join(outDir, strings.ReplaceAll(p.short+"_"+filepath.Base(p.names[i]), "-", "_"))
			if err := os.WriteFile(out, buf.Bytes(), 0o644); err != nil {
				return nil, err
			}
			overlay[p.names[i]] = out
		}
		// generated state dump
		var sb strings.Builder
		fmt.Fprintf(&sb, "package %s\n\nimport %s %q\n\n", p.pkg.Name(), rtName, RtPath)
		fn := "VerifState"
		if p.rel != "" {
			fn = "VerifState_" + p.short
		}
		sb.WriteString("var _ = " + rtName + ".Dump\n\n// " + fn + " dumps every package-level variable (generated).\nfunc " + fn + "() []string {\n\treturn []string{\n")
		for _, v := range p.globals {
			fmt.Fprintf(&sb, "\t\t%q + %s.Dump(%s),\n", v.Name()+"=", rtName, v.Name())
		}
		sb.WriteString("\t}\n}\n")
		out := filepath.Join(outDir, p.short+"_zz_verif_state.go")
		if err := os.WriteFile(out, []byte(sb.String()), 0o644); err != nil {
			return nil, err
		}
		overlay[filepath.Join(p.dir, "zz_verif_state.go")] = out
	}
	// runtime package
	overlay[filepath.Join(src, rtName, "rt.go")] = rtFile
	var nb strings.Builder
	nb.WriteString("package " + rtName + "\n\nfunc init() {\n\tGlobalNames = []string{\n")
	for _, g := range rep.Globals {
		fmt.Fprintf(&nb, "\t\t%q,\n", g)
	}
	nb.WriteString("\t}\n\tSiteNames = []string{\n")
	for _, s := range rep.Sites {
		fmt.Fprintf(&nb, "\t\t%q,\n", s)
	}
	nb.WriteString("\t}\n\tInstrumented = " + strconv.FormatBool(!plain) + "\n}\n\n// SiteNames: yield site id -> description (generated).\nvar SiteNames []string\n\n// Instrumented reports whether mxj was rewritten in this build.\nvar Instrumented bool\n")
	namesOut := filepath.Join(outDir, "zzverifrt_names_gen.go")
	if err := os.WriteFile(namesOut, []byte(nb.String()), 0o644); err != nil {
		return nil, err
	}
	overlay[filepath.Join(src, rtName, "names_gen.go")] = namesOut

	ov, _ := json.MarshalIndent(map[string]interface{}{"Replace": overlay}, "", " ")
	res.OverlayPath = filepath.Join(outDir, "overlay.json")
	if err := os.WriteFile(res.OverlayPath, ov, 0o644); err != nil {
		return nil, err
	}
	return res, nil
}

func stripDocs(f *ast.File) {
	f.Doc = nil
	ast.Inspect(f, func(n ast.Node) bool {
		switch d := n.(type) {
		case *ast.FuncDecl:
			d.Doc = nil
		case *ast.GenDecl:
			d.Doc = nil
		case *ast.ValueSpec:
			d.Doc, d.Comment = nil, nil
		case *ast.TypeSpec:
			d.Doc, d.Comment = nil, nil
		case *ast.Field:
			d.Doc, d.Comment = nil, nil
		case *ast.ImportSpec:
			d.Doc, d.Comment = nil, nil
		}
		return true
	})
}

func addImport(f *ast.File) {
	spec := &ast.ImportSpec{Name: ast.NewIdent(rtName), Path: &ast.BasicLit{Kind: token.STRING, Value: strconv.Quote(RtPath)}}
	gd := &ast.GenDecl{Tok: token.IMPORT, Specs: []ast.Spec{spec}}
	// after existing import decls
	n := 0
	for n < len(f.Decls) {
		if g, ok := f.Decls[n].(*ast.GenDecl); ok && g.Tok == token.IMPORT {
			n++
			continue
		}
		break
	}
	decls := append([]ast.Decl{}, f.Decls[:n]...)
	decls = append(decls, gd)
	decls = append(decls, f.Decls[n:]...)
	f.Decls = decls
	f.Imports = append(f.Imports, spec)
}

// ------------------------------------------------------------------ rewriting

func (rw *rewriter) rt(fn string, args ...ast.Expr) *ast.CallExpr {
	rw.usedRt = true
	return &ast.CallExpr{Fun: &ast.SelectorExpr{X: ast.NewIdent(rtName), Sel: ast.NewIdent(fn)}, Args: args}
}

func intLit(i int) ast.Expr { return &ast.BasicLit{Kind: token.INT, Value: strconv.Itoa(i)} }
func strLit(s string) ast.Expr {
	return &ast.BasicLit{Kind: token.STRING, Value: strconv.Quote(s)}
}
func boolLit(b bool) ast.Expr { return ast.NewIdent(strconv.FormatBool(b)) }

func (rw *rewriter) pos(n ast.Node) string {
	p := rw.fset.Position(n.Pos())
	return fmt.Sprintf("%s:%d", filepath.Base(p.Filename), p.Line)
}

func (rw *rewriter) newSite(n ast.Node, what string) int {
	rw.rep.Sites = append(rw.rep.Sites, rw.pos(n)+" "+what)
	return len(rw.rep.Sites) - 1
}

func (rw *rewriter) file(f *ast.File) {
	for _, d := range f.Decls {
		fd, ok := d.(*ast.FuncDecl)
		if !ok || fd.Body == nil {
			continue
		}
		rw.curFunc = fd.Name.Name
		rw.funcBody(fd.Body, fd, fd.Name.Name)
	}
	// function literals in package-level var initialisers
	for _, d := range f.Decls {
		if gd, ok := d.(*ast.GenDecl); ok && gd.Tok == token.VAR {
			for _, s := range gd.Specs {
				for _, v := range s.(*ast.ValueSpec).Values {
					rw.funcLits(v)
				}
			}
		}
	}
}

func (rw *rewriter) funcBody(b *ast.BlockStmt, at ast.Node, name string) {
	rw.rep.Funcs++
	b.List = rw.stmts(b.List)
	site := rw.newSite(at, "func "+name)
	y := &ast.ExprStmt{X: rw.rt("Yield", intLit(site))}
	b.List = append([]ast.Stmt{y}, b.List...)
}

// funcLits rewrites the bodies of function literals found in expression e.
func (rw *rewriter) funcLits(e ast.Node) {
	if e == nil {
		return
	}
	ast.Inspect(e, func(n ast.Node) bool {
		if fl, ok := n.(*ast.FuncLit); ok {
			rw.funcBody(fl.Body, fl, rw.curFunc+".func")
			return false
		}
		return true
	})
}

type access struct {
	id    int
	write bool
}

// accesses collects package-level variable accesses in the expressions of node n,
// not descending into function literals or nested statements blocks.
func (rw *rewriter) accesses(out *[]access, n ast.Node, write bool) {
	if n == nil {
		return
	}
	switch e := n.(type) {
	case *ast.Ident:
		if v, ok := rw.p.info.Uses[e].(*types.Var); ok {
			if id, ok := rw.gid[v]; ok {
				*out = append(*out, access{id, write})
			}
		}
	case *ast.FuncLit:
		return
	case *ast.ParenExpr:
		rw.accesses(out, e.X, write)
	case *ast.SelectorExpr:
		// qualified identifier pkg.Var
		if v, ok := rw.p.info.Uses[e.Sel].(*types.Var); ok {
			if id, ok := rw.gid[v]; ok {
				*out = append(*out, access{id, write})
				return
			}
		}
		if id, ok := e.X.(*ast.Ident); ok {
			if _, isPkg := rw.p.info.Uses[id].(*types.PkgName); isPkg {
				return
			}
		}
		w := write
		if sel, ok := rw.p.info.Selections[e]; ok && sel.Kind() == types.MethodVal {
			// pointer-receiver method on an addressable package variable
			if sig, ok := sel.Obj().Type().(*types.Signature); ok && sig.Recv() != nil {
				if _, isPtr := sig.Recv().Type().(*types.Pointer); isPtr {
					if _, opPtr := rw.p.info.Types[e.X].Type.Underlying().(*types.Pointer); !opPtr {
						w = true
					}
				}
			}
		}
		rw.accesses(out, e.X, w)
	case *ast.IndexExpr:
		rw.accesses(out, e.X, write)
		rw.accesses(out, e.Index, false)
	case *ast.SliceExpr:
		rw.accesses(out, e.X, write)
		rw.accesses(out, e.Low, false)
		rw.accesses(out, e.High, false)
		rw.accesses(out, e.Max, false)
	case *ast.StarExpr:
		rw.accesses(out, e.X, write)
	case *ast.UnaryExpr:
		if e.Op == token.AND {
			rw.accesses(out, e.X, true)
		} else {
			rw.accesses(out, e.X, false)
		}
	case *ast.BinaryExpr:
		rw.accesses(out, e.X, false)
		rw.accesses(out, e.Y, false)
	case *ast.CallExpr:
		rw.accesses(out, e.Fun, false)
		isDelete := false
		if id, ok := e.Fun.(*ast.Ident); ok && id.Name == "delete" {
			if _, b := rw.p.info.Uses[id].(*types.Builtin); b {
				isDelete = true
			}
		}
		for i, a := range e.Args {
			rw.accesses(out, a, isDelete && i == 0)
		}
	case *ast.TypeAssertExpr:
		rw.accesses(out, e.X, false)
	case *ast.CompositeLit:
		for _, el := range e.Elts {
			rw.accesses(out, el, false)
		}
	case *ast.KeyValueExpr:
		rw.accesses(out, e.Key, false)
		rw.accesses(out, e.Value, false)
	case *ast.AssignStmt:
		for _, l := range e.Lhs {
			rw.accesses(out, l, true)
		}
		if e.Tok != token.ASSIGN && e.Tok != token.DEFINE {
			for _, l := range e.Lhs { // x += y also reads x
				rw.accesses(out, l, false)
			}
		}
		for _, r := range e.Rhs {
			rw.accesses(out, r, false)
		}
	case *ast.IncDecStmt:
		rw.accesses(out, e.X, true)
	case *ast.ExprStmt:
		rw.accesses(out, e.X, false)
	case *ast.SendStmt:
		rw.accesses(out, e.Chan, false)
		rw.accesses(out, e.Value, false)
	case *ast.ReturnStmt:
		for _, r := range e.Results {
			rw.accesses(out, r, false)
		}
	case *ast.GoStmt:
		rw.accesses(out, e.Call, false)
	case *ast.DeferStmt:
		rw.accesses(out, e.Call, false)
	case *ast.DeclStmt:
		if gd, ok := e.Decl.(*ast.GenDecl); ok {
			for _, s := range gd.Specs {
				if vs, ok := s.(*ast.ValueSpec); ok {
					for _, v := range vs.Values {
						rw.accesses(out, v, false)
					}
				}
			}
		}
	}
}

func (rw *rewriter) globalCalls(acc []access) []ast.Stmt {
	seen := map[access]bool{}
	var r []ast.Stmt
	for _, a := range acc {
		if seen[a] {
			continue
		}
		seen[a] = true
		rw.rep.GlobalSites++
		r = append(r, &ast.ExprStmt{X: rw.rt("Global", intLit(a.id), boolLit(a.write))})
	}
	return r
}

// pure reports whether re-evaluating e has no side effects (beyond a panic the original would raise too).
func (rw *rewriter) pure(e ast.Expr) bool {
	switch x := e.(type) {
	case *ast.Ident, *ast.BasicLit:
		return true
	case *ast.ParenExpr:
		return rw.pure(x.X)
	case *ast.SelectorExpr:
		return rw.pure(x.X)
	case *ast.StarExpr:
		return rw.pure(x.X)
	case *ast.TypeAssertExpr:
		return rw.pure(x.X)
	case *ast.IndexExpr:
		return rw.pure(x.X) && rw.pure(x.Index)
	case *ast.BinaryExpr:
		return rw.pure(x.X) && rw.pure(x.Y)
	case *ast.UnaryExpr:
		return x.Op != token.ARROW && rw.pure(x.X)
	case *ast.CallExpr:
		// conversion T(x) or builtin len/cap
		if tv, ok := rw.p.info.Types[x.Fun]; ok && tv.IsType() && len(x.Args) == 1 {
			return rw.pure(x.Args[0])
		}
		if id, ok := x.Fun.(*ast.Ident); ok && (id.Name == "len" || id.Name == "cap") {
			if _, b := rw.p.info.Uses[id].(*types.Builtin); b {
				return rw.pure(x.Args[0])
			}
		}
	}
	return false
}

func (rw *rewriter) typeOf(e ast.Expr) types.Type {
	if tv, ok := rw.p.info.Types[e]; ok && tv.Type != nil {
		return tv.Type
	}
	return nil
}

// storeCalls returns monitor calls for the stores performed directly by statement s.
func (rw *rewriter) storeCalls(s ast.Stmt) []ast.Stmt {
	var r []ast.Stmt
	site := rw.pos(s) + " " + rw.curFunc
	note := func(why string) {
		rw.rep.UnmonitoredSto = append(rw.rep.UnmonitoredSto, site+": "+why)
	}
	idxStore := func(l ast.Expr) {
		ix, ok := l.(*ast.IndexExpr)
		if !ok {
			return
		}
		t := rw.typeOf(ix.X)
		if t == nil {
			return
		}
		switch t.Underlying().(type) {
		case *types.Map:
			if rw.pure(ix.X) {
				rw.rep.StoreSites++
				r = append(r, &ast.ExprStmt{X: rw.rt("StoreMap", ix.X, strLit(site))})
			} else {
				note("impure map base")
			}
		case *types.Slice:
			if rw.pure(ix.X) && rw.pure(ix.Index) {
				rw.rep.StoreSites++
				r = append(r, &ast.ExprStmt{X: rw.rt("StoreIdx", ix.X, &ast.CallExpr{Fun: ast.NewIdent("int"), Args: []ast.Expr{ix.Index}}, strLit(site))})
			} else {
				note("impure slice base/index")
			}
		}
	}
	var scanCalls func(n ast.Node)
	scanCalls = func(n ast.Node) {
		if n == nil {
			return
		}
		ast.Inspect(n, func(x ast.Node) bool {
			switch c := x.(type) {
			case *ast.FuncLit:
				return false
			case *ast.CallExpr:
				if id, ok := c.Fun.(*ast.Ident); ok {
					if _, b := rw.p.info.Uses[id].(*types.Builtin); b {
						switch id.Name {
						case "delete":
							if rw.pure(c.Args[0]) {
								rw.rep.StoreSites++
								r = append(r, &ast.ExprStmt{X: rw.rt("StoreMap", c.Args[0], strLit(site))})
							} else {
								note("impure delete base")
							}
						case "append":
							if t := rw.typeOf(c.Args[0]); t != nil {
								if sl, ok := t.Underlying().(*types.Slice); ok {
									if _, isIface := sl.Elem().Underlying().(*types.Interface); isIface {
										if rw.pure(c.Args[0]) {
											rw.rep.StoreSites++
											r = append(r, &ast.ExprStmt{X: rw.rt("StoreAppend", c.Args[0], strLit(site))})
										} else {
											note("impure append base")
										}
									}
								}
							}
						}
					}
				}
			}
			return true
		})
	}
	switch st := s.(type) {
	case *ast.AssignStmt:
		for _, l := range st.Lhs {
			idxStore(l)
		}
		for _, x := range st.Rhs {
			scanCalls(x)
		}
	case *ast.IncDecStmt:
		idxStore(st.X)
	case *ast.ExprStmt:
		scanCalls(st.X)
	case *ast.ReturnStmt:
		for _, x := range st.Results {
			scanCalls(x)
		}
	}
	return r
}

func (rw *rewriter) stmts(list []ast.Stmt) []ast.Stmt {
	var out []ast.Stmt
	for _, s := range list {
		post := rw.callsOut(s)
		pre, ns := rw.stmt(s)
		out = append(out, pre...)
		out = append(out, ns)
		if post {
			// a scheduling point after every statement that makes a call: the callee may be
			// uninstrumented (an io.Reader, the standard library) and do real work in between
			out = append(out, &ast.ExprStmt{X: rw.rt("Yield", intLit(rw.newSite(s, "after call in "+rw.curFunc)))})
		}
	}
	return out
}

// callsOut reports whether s is a simple statement containing a (non-builtin, non-conversion) call.
func (rw *rewriter) callsOut(s ast.Stmt) bool {
	switch s.(type) {
	case *ast.AssignStmt, *ast.ExprStmt, *ast.DeclStmt, *ast.IncDecStmt:
	default:
		return false
	}
	found := false
	ast.Inspect(s, func(n ast.Node) bool {
		switch c := n.(type) {
		case *ast.FuncLit:
			return false
		case *ast.CallExpr:
			if tv, ok := rw.p.info.Types[c.Fun]; ok && tv.IsType() {
				return true // conversion
			}
			if id, ok := c.Fun.(*ast.Ident); ok {
				if _, b := rw.p.info.Uses[id].(*types.Builtin); b {
					if id.Name == "panic" {
						found = false
						return false
					}
					return true
				}
			}
			found = true
		}
		return true
	})
	return found
}

// headerAccesses gathers accesses of the header parts of compound statements.
func (rw *rewriter) headerAccesses(acc *[]access, parts ...ast.Node) {
	for _, p := range parts {
		if p == nil || isNilNode(p) {
			continue
		}
		rw.accesses(acc, p, false)
	}
}

func isNilNode(n ast.Node) bool {
	switch x := n.(type) {
	case ast.Stmt:
		return x == nil
	case ast.Expr:
		return x == nil
	}
	return false
}

// stmt rewrites s; pre are statements to insert before it.
func (rw *rewriter) stmt(s ast.Stmt) (pre []ast.Stmt, out ast.Stmt) {
	switch st := s.(type) {
	case *ast.BlockStmt:
		st.List = rw.stmts(st.List)
		return nil, st
	case *ast.LabeledStmt:
		p, n := rw.stmt(st.Stmt)
		switch st.Stmt.(type) {
		case *ast.ForStmt, *ast.RangeStmt, *ast.SwitchStmt, *ast.TypeSwitchStmt, *ast.SelectStmt:
			// label may be the target of break/continue: keep it on the statement
			st.Stmt = n
			return p, st
		}
		// `L: stmt` becomes `L: ; pre...; stmt` so that a goto L still executes the hooks
		st.Stmt = &ast.EmptyStmt{}
		return append([]ast.Stmt{st}, p...), n
	case *ast.IfStmt:
		var acc []access
		rw.ifChain(st, &acc)
		return rw.globalCalls(acc), st
	case *ast.ForStmt:
		var acc []access
		if st.Init != nil {
			rw.accesses(&acc, st.Init, false)
			rw.funcLits(st.Init)
		}
		if st.Cond != nil {
			rw.accesses(&acc, st.Cond, false)
			rw.funcLits(st.Cond)
		}
		if st.Post != nil {
			rw.accesses(&acc, st.Post, false)
			rw.funcLits(st.Post)
		}
		st.Body.List = rw.stmts(st.Body.List)
		g := rw.globalCalls(acc)
		y := &ast.ExprStmt{X: rw.rt("Yield", intLit(rw.newSite(st, "loop in "+rw.curFunc)))}
		st.Body.List = append(append([]ast.Stmt{y}, rw.globalCalls(acc)...), st.Body.List...)
		return g, st
	case *ast.RangeStmt:
		var acc []access
		rw.accesses(&acc, st.X, false)
		rw.funcLits(st.X)
		st.Body.List = rw.stmts(st.Body.List)
		t := rw.typeOf(st.X)
		if t != nil {
			if mt, ok := t.Underlying().(*types.Map); ok {
				return rw.globalCalls(acc), rw.mapRange(st, mt)
			}
		}
		y := &ast.ExprStmt{X: rw.rt("Yield", intLit(rw.newSite(st, "loop in "+rw.curFunc)))}
		st.Body.List = append([]ast.Stmt{y}, st.Body.List...)
		return rw.globalCalls(acc), st
	case *ast.SwitchStmt:
		var acc []access
		if st.Init != nil {
			rw.accesses(&acc, st.Init, false)
			rw.funcLits(st.Init)
		}
		if st.Tag != nil {
			rw.accesses(&acc, st.Tag, false)
			rw.funcLits(st.Tag)
		}
		for _, c := range st.Body.List {
			cc := c.(*ast.CaseClause)
			for _, e := range cc.List {
				rw.accesses(&acc, e, false)
				rw.funcLits(e)
			}
			cc.Body = rw.stmts(cc.Body)
		}
		return rw.globalCalls(acc), st
	case *ast.TypeSwitchStmt:
		var acc []access
		if st.Init != nil {
			rw.accesses(&acc, st.Init, false)
		}
		rw.accesses(&acc, st.Assign, false)
		for _, c := range st.Body.List {
			cc := c.(*ast.CaseClause)
			cc.Body = rw.stmts(cc.Body)
		}
		return rw.globalCalls(acc), st
	case *ast.SelectStmt:
		for _, c := range st.Body.List {
			cc := c.(*ast.CommClause)
			cc.Body = rw.stmts(cc.Body)
		}
		return nil, st
	case *ast.CaseClause, *ast.CommClause:
		return nil, st
	default:
		var acc []access
		rw.accesses(&acc, s, false)
		pre = rw.globalCalls(acc)
		pre = append(pre, rw.storeCalls(s)...)
		rw.funcLits(s)
		return pre, s
	}
}

func (rw *rewriter) ifChain(st *ast.IfStmt, acc *[]access) {
	if st.Init != nil {
		rw.accesses(acc, st.Init, false)
		rw.funcLits(st.Init)
		if len(rw.storeCalls(st.Init)) > 0 {
			rw.rep.UnmonitoredSto = append(rw.rep.UnmonitoredSto, rw.pos(st)+": store in if-init")
		}
	}
	rw.accesses(acc, st.Cond, false)
	rw.funcLits(st.Cond)
	st.Body.List = rw.stmts(st.Body.List)
	switch e := st.Else.(type) {
	case *ast.IfStmt:
		rw.ifChain(e, acc)
	case *ast.BlockStmt:
		e.List = rw.stmts(e.List)
	}
}

// mapRange turns `for k, v := range M { body }` into
// `for zzit, k, v := zzverifrt.IterSI(M), *new(K), *new(V); zzit.Next(); { k, v = zzit.K, zzit.V; body }`
// (one k and one v per loop, as a range statement has under mxj's language version).
func (rw *rewriter) mapRange(st *ast.RangeStmt, mt *types.Map) ast.Stmt {
	rw.rep.MapRanges++
	itName := "zzit" + strconv.Itoa(rw.rep.MapRanges)
	it := func() *ast.Ident { return ast.NewIdent(itName) }
	qual := func(p *types.Package) string {
		if p == rw.p.pkg {
			return ""
		}
		return p.Name()
	}
	fast := false
	if b, ok := mt.Key().Underlying().(*types.Basic); ok && b.Kind() == types.String && types.Identical(mt.Key(), types.Typ[types.String]) {
		if i, ok := mt.Elem().(*types.Interface); ok && i.Empty() {
			fast = true
		}
	}
	var init ast.Stmt
	var kx, vx ast.Expr
	if fast {
		x := st.X
		// named map types (Map, MapSeq) need a conversion
		if _, named := rw.typeOf(st.X).(*types.Named); named {
			x = &ast.CallExpr{Fun: &ast.MapType{Key: ast.NewIdent("string"), Value: &ast.InterfaceType{Methods: &ast.FieldList{}}}, Args: []ast.Expr{st.X}}
		}
		init = &ast.AssignStmt{Lhs: []ast.Expr{it()}, Tok: token.DEFINE, Rhs: []ast.Expr{rw.rt("IterSI", x)}}
		kx = &ast.SelectorExpr{X: it(), Sel: ast.NewIdent("K")}
		vx = &ast.SelectorExpr{X: it(), Sel: ast.NewIdent("V")}
	} else {
		init = &ast.AssignStmt{Lhs: []ast.Expr{it()}, Tok: token.DEFINE, Rhs: []ast.Expr{rw.rt("IterAny", st.X)}}
		kt, _ := parser.ParseExpr(types.TypeString(mt.Key(), qual))
		vt, _ := parser.ParseExpr(types.TypeString(mt.Elem(), qual))
		kx = &ast.TypeAssertExpr{X: &ast.SelectorExpr{X: it(), Sel: ast.NewIdent("K")}, Type: kt}
		// a nil interface value cannot be asserted; element types here are concrete
		vx = &ast.TypeAssertExpr{X: &ast.SelectorExpr{X: it(), Sel: ast.NewIdent("V")}, Type: vt}
		if _, isIface := mt.Elem().Underlying().(*types.Interface); isIface {
			vx = &ast.SelectorExpr{X: it(), Sel: ast.NewIdent("V")}
		}
	}
	var bind []ast.Stmt
	isBlank := func(e ast.Expr) bool {
		if e == nil {
			return true
		}
		id, ok := e.(*ast.Ident)
		return ok && id.Name == "_"
	}
	var lhs, rhs []ast.Expr
	if !isBlank(st.Key) {
		lhs, rhs = append(lhs, st.Key), append(rhs, kx)
	}
	if !isBlank(st.Value) {
		lhs, rhs = append(lhs, st.Value), append(rhs, vx)
	}
	if len(lhs) > 0 {
		// the range variables are assigned, not re-declared, in every iteration: under the language version
		// of mxj's go.mod (before 1.22) a range statement has ONE variable per loop, which a closure in the
		// body captures by reference. With `:=` the variables are declared once, in the init clause below.
		bind = append(bind, &ast.AssignStmt{Lhs: lhs, Tok: token.ASSIGN, Rhs: rhs})
		if st.Tok == token.DEFINE {
			// avoid "declared and not used" when the body never uses a variable
			for _, l := range lhs {
				bind = append(bind, &ast.AssignStmt{Lhs: []ast.Expr{ast.NewIdent("_")}, Tok: token.ASSIGN, Rhs: []ast.Expr{l}})
			}
			// zzit, k, v := Iter(M), *new(K), *new(V)
			zero := func(t types.Type) ast.Expr {
				te, _ := parser.ParseExpr(types.TypeString(t, qual))
				return &ast.StarExpr{X: &ast.CallExpr{Fun: ast.NewIdent("new"), Args: []ast.Expr{te}}}
			}
			as := init.(*ast.AssignStmt)
			if !isBlank(st.Key) {
				as.Lhs = append(as.Lhs, st.Key)
				as.Rhs = append(as.Rhs, zero(mt.Key()))
			}
			if !isBlank(st.Value) {
				as.Lhs = append(as.Lhs, st.Value)
				as.Rhs = append(as.Rhs, zero(mt.Elem()))
			}
		}
	}
	body := &ast.BlockStmt{List: append(bind, st.Body.List...)}
	return &ast.ForStmt{
		Init: init,
		Cond: &ast.CallExpr{Fun: &ast.SelectorExpr{X: it(), Sel: ast.NewIdent("Next")}},
		Body: body,
	}
}
