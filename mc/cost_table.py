#!/usr/bin/env python3
"""Prints the DESIGN.md section-10 table from evidence/*.json (quick) and mc/.work/thorough-evidence/*.json."""
import json, glob, os
def row(f):
    e=json.load(open(f)); c=e['coverage']
    return e['property_id'], c
def fmt(n):
    n=int(n)
    return f"{n/1e6:.1f} M" if n>=1e6 else (f"{n/1e3:.0f} k" if n>=1e4 else str(n))
q={}; t={}
for f in glob.glob('/verif/evidence/*.json'):
    p,c=row(f); q[p]=(c,json.load(open(f))['wall_s'])
for f in glob.glob('/verif/mc/.work/thorough-evidence/*.json'):
    p,c=row(f); t[p]=(c,json.load(open(f))['wall_s'])
print("| property | quick: cases / calls on the real code / executions (schedules) / wall | thorough: cases / executions / wall / exhaustive |")
print("|---|---|---|")
for p in sorted(q):
    c,w=q[p]
    line=f"| {p} | {fmt(c.get('states',c.get('evaluations',0)))} / {fmt(c.get('transitions',0))} / {fmt(c.get('schedules',0))} / {w:.0f} s |"
    if p in t:
        c2,w2=t[p]
        line+=f" {fmt(c2.get('states',c2.get('evaluations',0)))} / {fmt(c2.get('schedules',0))} / {w2:.0f} s / {'yes' if c2.get('exhaustive') else 'no (tier budget or execution cap reached, see caps_hit)'} |"
    else:
        line+=" not run |"
    print(line)
