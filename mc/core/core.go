// Package core holds the types shared by the driver (cmd/mxjcheck) and the harness workers.
package core

import (
	"encoding/json"
	"fmt"
	"hash/fnv"
	"sort"
)

// Violation is one failed oracle clause on one concrete execution.
type Violation struct {
	Property string          `json:"property"`
	API      string          `json:"api"`    // API under test
	Clause   string          `json:"clause"` // oracle clause that failed
	Shape    string          `json:"shape"`  // narrow classifier of the failing input (for known findings)
	Case     json.RawMessage `json:"case"`   // concrete case, replayable by the harness
	Choices  []int           `json:"choices,omitempty"`
	Detail   string          `json:"detail"`
	GoTest   string          `json:"go_test,omitempty"` // plain unit test that replays the case without the framework
	NoReplay bool            `json:"no_replay,omitempty"` // observed on a whole run (end-of-run state); not re-executed case by case
	Shard    int             `json:"shard,omitempty"`     // filled by the driver: the worker that reported it
}

// Key identifies a class of violations.
func (v Violation) Key() string { return v.API + "|" + v.Clause + "|" + v.Shape }

// Summary is what one worker (shard) reports.
type Summary struct {
	Property       string            `json:"property"`
	Tier           string            `json:"tier"`
	Shard          int               `json:"shard"`
	NShards        int               `json:"nshards"`
	States         int64             `json:"states"`      // distinct cases / machine states
	Transitions    int64             `json:"transitions"` // API calls executed on the real code
	Schedules      int64             `json:"schedules"`   // choice sequences (executions under E-choice)
	Validated      int64             `json:"validated"`   // executions compared with the reference model
	Evaluations    int64             `json:"evaluations"`
	Nontrivial     int64             `json:"nontrivial"`
	Outcomes       int64             `json:"outcomes"` // distinct observed outcome digests in this shard
	BoundCompleted int               `json:"bound_completed"`
	Exhaustive     bool              `json:"exhaustive"`
	Caps           []string          `json:"caps,omitempty"`
	Samples        []json.RawMessage `json:"samples,omitempty"`
	Counters       map[string]int64  `json:"counters,omitempty"`
	Violations     []Violation       `json:"violations,omitempty"`
	ViolationCount int64             `json:"violation_count"`
	ViolationKeys  map[string]int64  `json:"violation_keys,omitempty"`
	Rule           string            `json:"rule"`
	Assumptions    []string          `json:"assumptions,omitempty"`
	WallS          float64           `json:"wall_s"`
	Broken         string            `json:"broken,omitempty"` // non-empty: the check itself failed (not a verdict)
}

// Finding is one line of known_findings.jsonl.
type Finding struct {
	Status    string `json:"status"` // open | fixed
	Property  string `json:"property"`
	ID        string `json:"id"`
	Signature struct {
		API    string `json:"api,omitempty"`
		Clause string `json:"clause,omitempty"`
		Shape  string `json:"shape,omitempty"`
	} `json:"signature"`
	What   string `json:"what"`
	Commit string `json:"commit,omitempty"`
}

// Matches reports whether an open finding covers violation v.
func (f Finding) Matches(v Violation) bool {
	if f.Status != "open" || f.Property != v.Property {
		return false
	}
	s := f.Signature
	if s.API == "" && s.Clause == "" && s.Shape == "" {
		return false
	}
	return (s.API == "" || s.API == v.API) && (s.Clause == "" || s.Clause == v.Clause) && (s.Shape == "" || s.Shape == v.Shape)
}

// Replay is the artefact written for a violation.
type Replay struct {
	Property string          `json:"property"`
	API      string          `json:"api"`
	Clause   string          `json:"clause"`
	Shape    string          `json:"shape"`
	Case     json.RawMessage `json:"case"`
	Choices  []int           `json:"choices,omitempty"`
	Detail   string          `json:"detail"`
	GoTest   string          `json:"go_test,omitempty"`
	Note     string          `json:"note,omitempty"`
	// History-dependent violations (the case alone does not fail in a fresh process, the worker's whole
	// deterministic run does): replayed by re-running that worker.
	HistoryReplay *HistoryReplay `json:"history_replay,omitempty"`
}

// HistoryReplay identifies a deterministic worker run.
type HistoryReplay struct {
	Tier    string `json:"tier"`
	Shard   int    `json:"shard"`
	NShards int    `json:"nshards"`
	Class   string `json:"class"`
}

// Hash64 of a string.
func Hash64(s string) uint64 {
	h := fnv.New64a()
	h.Write([]byte(s))
	return h.Sum64()
}

// SortedKeys of a counter map.
func SortedKeys(m map[string]int64) []string {
	ks := make([]string, 0, len(m))
	for k := range m {
		ks = append(ks, k)
	}
	sort.Strings(ks)
	return ks
}

// J marshals v, panicking on error (inputs are plain data).
func J(v interface{}) json.RawMessage {
	b, err := json.Marshal(v)
	if err != nil {
		panic(fmt.Sprintf("core.J: %v", err))
	}
	return b
}
