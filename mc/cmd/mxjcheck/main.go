// Command mxjcheck is the driver: instrument /repo's working tree → build the harness with
// `go build -overlay` → shard the exploration over worker processes → aggregate → filter known
// findings → write evidence/<id>.json and replays → exit code.
//
//	mxjcheck run <ID> [--tier quick|thorough] [--shards N] [--budget dur]
//	mxjcheck replay <path>
//	mxjcheck validate          translation validation of the rewriter (plain vs instrumented)
//	mxjcheck setup             build + warm caches + validate
//
// Exit codes: 0 held / known findings only; 1 VIOLATION; 2 the check itself is broken.
// Environment: MXJ_SRC (default /repo) selects the mxj tree; VERIF_TIER, VERIF_SEED accepted.
package main

import (
	"bytes"
	"encoding/json"
	"flag"
	"fmt"
	"os"
	"os/exec"
	"path/filepath"
	"sort"
	"strconv"
	"strings"
	"sync"
	"time"

	"verif/mc/core"
	"verif/mc/instrument"
)

var (
	verifDir = "/verif"
	mcDir    = "/verif/mc"
)

func goEnv() []string {
	env := os.Environ()
	env = append(env, "GOFLAGS=-mod=mod", "GOPROXY=off", "GOSUMDB=off", "GOTOOLCHAIN=local", "CGO_ENABLED=0")
	return env
}

func srcDir() string {
	if s := os.Getenv("MXJ_SRC"); s != "" {
		a, _ := filepath.Abs(s)
		return a
	}
	return "/repo"
}

func die(code int, format string, a ...interface{}) {
	fmt.Fprintf(os.Stderr, format+"\n", a...)
	os.Exit(code)
}

// buildHarness instruments src and builds the harness binary into work; returns binary path.
func buildHarness(work string, plain, race bool) (string, *instrument.Result, error) {
	name := "inst"
	if plain {
		name = "plain"
	}
	idir := filepath.Join(work, name)
	res, err := instrument.Build(srcDir(), idir, filepath.Join(mcDir, "rt", "rt.go"), plain)
	if err != nil {
		return "", nil, fmt.Errorf("instrument: %v", err)
	}
	bin := filepath.Join(work, "mxjharness-"+name)
	args := []string{"build", "-overlay", res.OverlayPath, "-o", bin}
	env := goEnv()
	if race {
		args = append(args, "-race")
		bin += "-race"
		args[4] = bin
		// race detector needs cgo
		for i, e := range env {
			if e == "CGO_ENABLED=0" {
				env[i] = "CGO_ENABLED=1"
			}
		}
	}
	if srcDir() != "/repo" {
		// point the module replacement at the alternate tree
		mod, _ := os.ReadFile(filepath.Join(mcDir, "go.mod"))
		mod = bytes.ReplaceAll(mod, []byte("=> /repo"), []byte("=> "+srcDir()))
		mf := filepath.Join(work, "alt.mod")
		os.WriteFile(mf, mod, 0o644)
		sum, _ := os.ReadFile(filepath.Join(mcDir, "go.sum"))
		os.WriteFile(filepath.Join(work, "alt.sum"), sum, 0o644)
		args = append(args, "-modfile", mf)
	}
	args = append(args, "./harness")
	cmd := exec.Command("go", args...)
	cmd.Dir = mcDir
	cmd.Env = env
	out, err := cmd.CombinedOutput()
	if err != nil {
		return "", res, fmt.Errorf("go build: %v\n%s", err, out)
	}
	return bin, res, nil
}

func loadFindings() []core.Finding {
	var fs []core.Finding
	data, err := os.ReadFile(filepath.Join(verifDir, "known_findings.jsonl"))
	if err != nil {
		return nil
	}
	for _, l := range strings.Split(string(data), "\n") {
		l = strings.TrimSpace(l)
		if l == "" || strings.HasPrefix(l, "#") {
			continue
		}
		var f core.Finding
		if err := json.Unmarshal([]byte(l), &f); err != nil {
			die(2, "known_findings.jsonl: %v: %s", err, l)
		}
		fs = append(fs, f)
	}
	return fs
}

func main() {
	if len(os.Args) < 2 {
		die(2, "usage: mxjcheck run|replay|validate|setup ...")
	}
	switch os.Args[1] {
	case "run":
		os.Exit(cmdRun(os.Args[2:]))
	case "replay":
		os.Exit(cmdReplay(os.Args[2:]))
	case "validate":
		os.Exit(cmdValidate())
	case "setup":
		os.Exit(cmdSetup())
	case "instrument":
		// debugging aid: mxjcheck instrument <outdir>
		res, err := instrument.Build(srcDir(), os.Args[2], filepath.Join(mcDir, "rt", "rt.go"), false)
		if err != nil {
			die(2, "%v", err)
		}
		b, _ := json.MarshalIndent(res.Report, "", " ")
		fmt.Println(string(b))
	default:
		die(2, "unknown command %s", os.Args[1])
	}
}

func mkWork() string {
	base := filepath.Join(mcDir, ".work")
	os.MkdirAll(base, 0o755)
	w, err := os.MkdirTemp(base, "w")
	if err != nil {
		die(2, "%v", err)
	}
	return w
}

func cmdRun(args []string) int {
	if len(args) < 1 {
		die(2, "usage: mxjcheck run <ID> [--tier t]")
	}
	id := args[0]
	fs := flag.NewFlagSet("run", flag.ExitOnError)
	tier := fs.String("tier", "", "quick|thorough")
	shards := fs.Int("shards", 16, "worker processes")
	budget := fs.String("budget", "", "tier budget (Go duration)")
	keep := fs.Bool("keep", false, "keep work directory")
	fs.Parse(args[1:])
	if *tier == "" {
		*tier = os.Getenv("VERIF_TIER")
	}
	if *tier == "" {
		*tier = "quick"
	}
	seed, _ := strconv.Atoi(os.Getenv("VERIF_SEED"))
	start := time.Now()
	work := mkWork()
	if !*keep {
		defer os.RemoveAll(work)
	}
	bin, ires, err := buildHarness(work, false, false)
	if err != nil {
		fmt.Fprintf(os.Stderr, "BROKEN property=%s build failed: %v\n", id, err)
		return 2
	}
	var plainBin, raceBin string
	if id == "C17" {
		// free-running race pass uses the plain build with -race
		raceBin, _, err = buildHarness(work, true, true)
		if err != nil {
			fmt.Fprintf(os.Stderr, "BROKEN property=%s race build failed: %v\n", id, err)
			return 2
		}
	}
	_ = plainBin
	buildS := time.Since(start).Seconds()

	// run shards
	sums := make([]*core.Summary, *shards)
	errs := make([]string, *shards)
	var wg sync.WaitGroup
	for i := 0; i < *shards; i++ {
		wg.Add(1)
		go func(i int) {
			defer wg.Done()
			// VERIF_SEED only rotates which shard index a worker takes
			sh := (i + seed) % *shards
			if sh < 0 {
				sh += *shards
			}
			out := filepath.Join(work, fmt.Sprintf("sum-%d.json", sh))
			a := []string{"run", id, "--tier", *tier, "--shard", strconv.Itoa(sh), "--nshards", strconv.Itoa(*shards), "--out", out}
			if *budget != "" {
				a = append(a, "--budget", *budget)
			}
			cmd := exec.Command(bin, a...)
			cmd.Dir = work
			cmd.Env = append(os.Environ(), "GOMAXPROCS=2", "MXJ_RACE_BIN="+raceBin, "MXJ_WORK="+work)
			var stderr bytes.Buffer
			cmd.Stderr = &stderr
			cmd.Stdout = &stderr
			if err := cmd.Run(); err != nil {
				errs[sh] = fmt.Sprintf("shard %d: %v: %s", sh, err, short(stderr.String(), 2000))
				return
			}
			data, err := os.ReadFile(out)
			if err != nil {
				errs[sh] = err.Error()
				return
			}
			var s core.Summary
			if err := json.Unmarshal(data, &s); err != nil {
				errs[sh] = err.Error()
				return
			}
			sums[sh] = &s
		}(i)
	}
	wg.Wait()
	for _, e := range errs {
		if e != "" {
			fmt.Fprintf(os.Stderr, "BROKEN property=%s worker failed: %s\n", id, e)
			return 2
		}
	}
	// aggregate
	agg := &core.Summary{Property: id, Tier: *tier, Exhaustive: true, Counters: map[string]int64{}, ViolationKeys: map[string]int64{}}
	capSet := map[string]bool{}
	brokenMsg := ""
	for _, s := range sums {
		if s.Broken != "" {
			brokenMsg = s.Broken
		}
		agg.States += s.States
		agg.Transitions += s.Transitions
		agg.Schedules += s.Schedules
		agg.Validated += s.Validated
		agg.Evaluations += s.Evaluations
		agg.Nontrivial += s.Nontrivial
		agg.Outcomes += s.Outcomes
		agg.ViolationCount += s.ViolationCount
		if s.BoundCompleted > agg.BoundCompleted {
			agg.BoundCompleted = s.BoundCompleted
		}
		agg.Exhaustive = agg.Exhaustive && s.Exhaustive
		for _, c := range s.Caps {
			if !capSet[c] {
				capSet[c] = true
				agg.Caps = append(agg.Caps, c)
			}
		}
		for k, v := range s.Counters {
			if strings.HasPrefix(k, "max_") {
				if v > agg.Counters[k] {
					agg.Counters[k] = v
				}
				continue
			}
			agg.Counters[k] += v
		}
		for k, v := range s.ViolationKeys {
			agg.ViolationKeys[k] += v
		}
		if len(agg.Samples) < 8 {
			for _, x := range s.Samples {
				if len(agg.Samples) < 8 {
					agg.Samples = append(agg.Samples, x)
				}
			}
		}
		for _, v := range s.Violations {
			v.Shard = s.Shard
			agg.Violations = append(agg.Violations, v)
		}
		if s.Rule != "" {
			agg.Rule = s.Rule
		}
		if len(s.Assumptions) > 0 {
			agg.Assumptions = s.Assumptions
		}
	}
	if brokenMsg != "" && agg.ViolationCount == 0 {
		fmt.Fprintf(os.Stderr, "BROKEN property=%s %s\n", id, brokenMsg)
		return 2
	} else if brokenMsg != "" {
		fmt.Fprintf(os.Stderr, "note: a worker also reported: %s\n", brokenMsg)
	}
	// a stable order: simplest (shortest case) first within a class
	sort.SliceStable(agg.Violations, func(i, j int) bool {
		a, b := agg.Violations[i], agg.Violations[j]
		if a.Key() != b.Key() {
			return a.Key() < b.Key()
		}
		if len(a.Case) != len(b.Case) {
			return len(a.Case) < len(b.Case)
		}
		return string(a.Case) < string(b.Case)
	})

	// known-findings filter
	findings := loadFindings()
	knownHit := map[string]int64{}
	unknownClasses := map[string]core.Violation{}
	var unknownOrder []string
	for _, v := range agg.Violations {
		matched := false
		for _, f := range findings {
			if f.Matches(v) {
				knownHit[f.ID]++
				matched = true
				break
			}
		}
		if !matched {
			if _, ok := unknownClasses[v.Key()]; !ok {
				unknownClasses[v.Key()] = v
				unknownOrder = append(unknownOrder, v.Key())
			}
		}
	}
	// count per class of violations beyond the retained ones
	classKnown := func(key string) bool {
		parts := strings.SplitN(key, "|", 3)
		v := core.Violation{Property: id, API: parts[0], Clause: parts[1], Shape: parts[2]}
		for _, f := range findings {
			if f.Matches(v) {
				return true
			}
		}
		return false
	}
	var unknownTotal int64
	for k, n := range agg.ViolationKeys {
		if !classKnown(k) {
			unknownTotal += n
		}
	}

	exit := 0
	for _, f := range findings {
		if f.Status == "open" && f.Property == id {
			fmt.Printf("KNOWN-FINDING: property=%s %s (id=%s; %d matching executions in this run)\n", id, f.What, f.ID, knownHit[f.ID])
		}
	}
	os.MkdirAll(filepath.Join(verifDir, "replays"), 0o755)
	histRuns := map[int][]core.Summary{}
	var replayPaths []string
	for _, k := range unknownOrder {
		v := unknownClasses[k]
		r := core.Replay{Property: id, API: v.API, Clause: v.Clause, Shape: v.Shape, Case: v.Case, Choices: v.Choices, Detail: v.Detail, GoTest: v.GoTest}
		r.Note = "re-run with: ./mc/mxjcheck replay <this file>"
		name := fmt.Sprintf("%s-%016x.json", id, core.Hash64(k+string(v.Case)))
		rp := filepath.Join(verifDir, "replays", name)
		b, _ := json.MarshalIndent(r, "", " ")
		os.WriteFile(rp, b, 0o644)
		// reproduce five times before reporting
		repro := 0
		if v.NoReplay {
			repro = 5 // a whole-run observation (reported by every worker that saw it), not a single case
		}
		for i := 0; i < 5 && !v.NoReplay; i++ {
			cmd := exec.Command(bin, "replay", rp)
			cmd.Dir = work
			cmd.Env = append(os.Environ(), "MXJ_WORK="+work, "MXJ_RACE_BIN="+raceBin)
			if err := cmd.Run(); err != nil {
				if ee, ok := err.(*exec.ExitError); ok && ee.ExitCode() == 1 {
					repro++
				}
			}
		}
		if repro == 0 {
			// not reproducible from the case alone: the behaviour may depend on what the same process did
			// before (state carried between calls). The worker's run is deterministic, so re-run that
			// worker twice and require the same class both times.
			hits := 0
			if _, done := histRuns[v.Shard]; !done {
				// both re-runs of this worker at once; later classes from the same worker reuse them
				res := make([]core.Summary, 2)
				var wg sync.WaitGroup
				for i := 0; i < 2; i++ {
					wg.Add(1)
					go func(i int) {
						defer wg.Done()
						out := filepath.Join(work, fmt.Sprintf("hist-%d-%d.json", v.Shard, i))
						cmd := exec.Command(bin, "run", id, "--tier", *tier, "--shard", strconv.Itoa(v.Shard), "--nshards", strconv.Itoa(*shards), "--out", out)
						cmd.Dir = work
						cmd.Env = append(os.Environ(), "GOMAXPROCS=2", "MXJ_RACE_BIN="+raceBin, "MXJ_WORK="+work)
						if cmd.Run() == nil {
							if data, err := os.ReadFile(out); err == nil {
								json.Unmarshal(data, &res[i])
							}
						}
					}(i)
				}
				wg.Wait()
				histRuns[v.Shard] = res
			}
			for _, hs := range histRuns[v.Shard] {
				if hs.ViolationKeys[k] > 0 {
					hits++
				}
			}
			if hits == 2 {
				r.HistoryReplay = &core.HistoryReplay{Tier: *tier, Shard: v.Shard, NShards: *shards, Class: k}
				r.Note = "history-dependent: this case does not fail in a fresh process, but the deterministic run of worker " + strconv.Itoa(v.Shard) + "/" + strconv.Itoa(*shards) + " fails the same way every time (state carried between calls); ./mc/mxjcheck replay <this file> re-runs that worker"
				b, _ := json.MarshalIndent(r, "", " ")
				os.WriteFile(rp, b, 0o644)
				repro = 5
			}
		}
		if repro != 5 {
			fmt.Fprintf(os.Stderr, "BROKEN property=%s violation class %q reproduced %d/5 times on replay: nondeterminism not owned (replay=%s)\n", id, k, repro, rp)
			return 2
		}
		fmt.Printf("VIOLATION property=%s replay=%s\n", id, rp)
		fmt.Printf("  class: api=%s clause=%s shape=%s (%d executions)\n  %s\n", v.API, v.Clause, v.Shape, agg.ViolationKeys[k], strings.ReplaceAll(short(v.Detail, 1500), "\n", "\n  "))
		replayPaths = append(replayPaths, rp)
		exit = 1
	}

	// evidence
	wall := time.Since(start).Seconds()
	cov := map[string]interface{}{
		"states":                        agg.States,
		"transitions":                   agg.Transitions,
		"traces_validated_against_impl": agg.Validated,
		"schedules":                     agg.Schedules,
		"evaluations":                   agg.Evaluations,
		"distinct_nontrivial":           agg.Nontrivial,
		"distinct_outcomes":             agg.Outcomes,
		"rule":                          agg.Rule,
		"samples":                       agg.Samples,
		"exhaustive":                    agg.Exhaustive,
		"bound_completed":               agg.BoundCompleted,
		"caps_hit":                      agg.Caps,
		"counters":                      agg.Counters,
		"shards":                        *shards,
		"build_s":                       buildS,
		"known_finding_executions":      knownHit,
		"instrumentation": map[string]interface{}{
			"files": ires.Report.Files, "map_ranges_rewritten": ires.Report.MapRanges, "functions": ires.Report.Funcs,
			"package_vars": ires.Report.GlobalVars, "global_access_sites": ires.Report.GlobalSites, "store_sites": ires.Report.StoreSites,
			"unmonitored_store_sites": len(ires.Report.UnmonitoredSto),
		},
		"explanation": "bounded exhaustive exploration of the real mxj code (instrumented at build time via go build -overlay); every execution is compared with the reference model / oracle, so traces_validated_against_impl counts executions",
	}
	if len(agg.Samples) == 0 {
		cov["samples"] = []string{"(no samples recorded)"}
	}
	ev := map[string]interface{}{
		"property_id": id,
		"tier":        *tier,
		"seed":        seed,
		"level":       "model_checking",
		"coverage":    cov,
		"assumptions": agg.Assumptions,
		"wall_s":      wall,
		"violations":  unknownTotal,
		"source_tree": srcDir(),
	}
	if agg.Assumptions == nil {
		ev["assumptions"] = []string{}
	}
	evDir := filepath.Join(verifDir, "evidence")
	if srcDir() != "/repo" {
		// runs against an alternate tree (seeded changes) must not overwrite the evidence of /repo
		evDir = filepath.Join(mcDir, ".work", "alt-evidence")
	}
	if d := os.Getenv("MXJ_EVIDENCE_DIR"); d != "" {
		evDir = d // trial runs (e.g. a thorough tier run while quick evidence is the committed one)
	}
	os.MkdirAll(evDir, 0o755)
	eb, _ := json.MarshalIndent(ev, "", " ")
	if err := os.WriteFile(filepath.Join(evDir, id+".json"), eb, 0o644); err != nil {
		fmt.Fprintf(os.Stderr, "BROKEN cannot write evidence: %v\n", err)
		return 2
	}
	fmt.Printf("%s tier=%s states=%d transitions=%d schedules=%d validated=%d nontrivial=%d outcomes=%d bound=%d exhaustive=%v violations(unlisted)=%d known=%d wall=%.1fs (build %.1fs)\n",
		id, *tier, agg.States, agg.Transitions, agg.Schedules, agg.Validated, agg.Nontrivial, agg.Outcomes, agg.BoundCompleted, agg.Exhaustive, unknownTotal, agg.ViolationCount-unknownTotal, wall, buildS)
	for _, c := range agg.Caps {
		fmt.Printf("  cap: %s\n", c)
	}
	if agg.States == 0 || agg.Transitions == 0 {
		fmt.Fprintf(os.Stderr, "BROKEN property=%s explored nothing\n", id)
		return 2
	}
	return exit
}

func short(s string, n int) string {
	if len(s) <= n {
		return s
	}
	return s[:n] + "…"
}

func cmdReplay(args []string) int {
	if len(args) < 1 {
		die(2, "usage: mxjcheck replay <path>")
	}
	work := mkWork()
	defer os.RemoveAll(work)
	bin, _, err := buildHarness(work, false, false)
	if err != nil {
		fmt.Fprintf(os.Stderr, "BROKEN build failed: %v\n", err)
		return 2
	}
	p, _ := filepath.Abs(args[0])
	if data, err := os.ReadFile(p); err == nil {
		var rr core.Replay
		if json.Unmarshal(data, &rr) == nil && rr.HistoryReplay != nil {
			h := rr.HistoryReplay
			out := filepath.Join(work, "hist.json")
			cmd := exec.Command(bin, "run", rr.Property, "--tier", h.Tier, "--shard", strconv.Itoa(h.Shard), "--nshards", strconv.Itoa(h.NShards), "--out", out)
			cmd.Dir = work
			cmd.Env = append(os.Environ(), "GOMAXPROCS=2", "MXJ_WORK="+work)
			cmd.Run()
			var hs core.Summary
			if d2, err := os.ReadFile(out); err == nil && json.Unmarshal(d2, &hs) == nil && hs.ViolationKeys[h.Class] > 0 {
				fmt.Printf("REPLAY-RESULT reproduced=true class=%s (history-dependent: worker %d/%d re-run, %d executions of this class)\n", h.Class, h.Shard, h.NShards, hs.ViolationKeys[h.Class])
				for _, v := range hs.Violations {
					if v.Key() == h.Class {
						fmt.Println(v.Detail)
						break
					}
				}
				return 1
			}
			fmt.Printf("REPLAY-RESULT reproduced=false class=%s\n", h.Class)
			return 0
		}
	}
	raceBin := ""
	if data, err := os.ReadFile(p); err == nil && bytes.Contains(data, []byte(`"kind": "race"`)) || bytes.Contains(data, []byte(`"kind":"race"`)) {
		// a race-detector finding is replayed on the uninstrumented -race build
		if rb, _, err := buildHarness(work, true, true); err == nil {
			raceBin = rb
		}
	}
	cmd := exec.Command(bin, "replay", p)
	cmd.Dir = work
	cmd.Env = append(os.Environ(), "MXJ_WORK="+work, "MXJ_RACE_BIN="+raceBin)
	cmd.Stdout = os.Stdout
	cmd.Stderr = os.Stderr
	if err := cmd.Run(); err != nil {
		if ee, ok := err.(*exec.ExitError); ok {
			return ee.ExitCode()
		}
		return 2
	}
	return 0
}

// cmdValidate: the battery must print the same on the plain and the instrumented build.
func cmdValidate() int {
	work := mkWork()
	defer os.RemoveAll(work)
	plain, _, err := buildHarness(work, true, false)
	if err != nil {
		fmt.Fprintf(os.Stderr, "BROKEN plain build failed: %v\n", err)
		return 2
	}
	inst, res, err := buildHarness(work, false, false)
	if err != nil {
		fmt.Fprintf(os.Stderr, "BROKEN instrumented build failed: %v\n", err)
		return 2
	}
	run := func(bin string) string {
		out, err := exec.Command(bin, "selftest").Output()
		if err != nil {
			return "ERROR " + err.Error()
		}
		return string(out)
	}
	a, b := run(plain), run(inst)
	if a != b || strings.HasPrefix(a, "ERROR") {
		fmt.Fprintf(os.Stderr, "BROKEN translation validation: plain and instrumented builds disagree\n")
		la, lb := strings.Split(a, "\n"), strings.Split(b, "\n")
		for i := range la {
			if i >= len(lb) || la[i] != lb[i] {
				fmt.Fprintf(os.Stderr, " plain: %s\n inst:  %s\n", la[i], func() string {
					if i < len(lb) {
						return lb[i]
					}
					return "<missing>"
				}())
				break
			}
		}
		return 2
	}
	fmt.Printf("validate: ok (%d battery lines identical; %d files, %d map ranges, %d funcs, %d package vars, %d global-access sites, %d store sites, %d unmonitored store sites)\n",
		strings.Count(a, "\n"), res.Report.Files, res.Report.MapRanges, res.Report.Funcs, res.Report.GlobalVars, res.Report.GlobalSites, res.Report.StoreSites, len(res.Report.UnmonitoredSto))
	for _, u := range res.Report.UnmonitoredSto {
		fmt.Println("  unmonitored:", u)
	}
	return 0
}

func cmdSetup() int {
	// warm the build cache for the three variants, then validate
	work := mkWork()
	defer os.RemoveAll(work)
	for _, v := range []struct{ plain, race bool }{{false, false}, {true, false}, {true, true}} {
		if _, _, err := buildHarness(work, v.plain, v.race); err != nil {
			fmt.Fprintf(os.Stderr, "setup: build failed: %v\n", err)
			return 2
		}
	}
	return cmdValidate()
}
