#!/bin/sh
# usage: mc/check.sh <ID> <tier>   (cwd=/verif); rebuilds driver if needed, then runs the check.
cd /verif/mc || exit 2
export GOFLAGS=-mod=mod GOPROXY=off GOSUMDB=off GOTOOLCHAIN=local
go build -o mxjcheck ./cmd/mxjcheck || exit 2
exec ./mxjcheck run "$1" --tier "${2:-quick}"
