#!/bin/sh
# Build the driver and warm the build caches (offline).
set -e
cd /verif/mc
export GOFLAGS=-mod=mod GOPROXY=off GOSUMDB=off GOTOOLCHAIN=local
go build -o mxjcheck ./cmd/mxjcheck
./mxjcheck setup
