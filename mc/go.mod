module verif/mc

go 1.23

require github.com/clbanning/mxj/v2 v2.0.0

replace github.com/clbanning/mxj/v2 => /repo
