package main

import (
	"bytes"
	"encoding/json"
	"fmt"
	"strconv"
	"strings"

	mxj "github.com/clbanning/mxj/v2"
	"github.com/clbanning/mxj/v2/j2x"
	rt "github.com/clbanning/mxj/v2/zzverifrt"
)

// C06 — JSON encode/decode is lossless and agrees with encoding/json.

type c06Case struct {
	Kind      string          `json:"kind"` // encode | decode
	Map       json.RawMessage `json:"map,omitempty"`
	MapDump   string          `json:"map_dump,omitempty"`
	Enc       string          `json:"encoder,omitempty"`
	Safe      bool            `json:"safe,omitempty"`
	Prefix    string          `json:"prefix,omitempty"`
	Indent    string          `json:"indent,omitempty"`
	Input     string          `json:"input,omitempty"`
	UseNumber bool            `json:"use_number,omitempty"`
	Pol       int             `json:"order_policy"`
}

func init() {
	register(&Property{ID: "C06", Run: c06Run, Replay: func(c *Ctx, cas json.RawMessage, ch []int) {
		var k c06Case
		json.Unmarshal(cas, &k)
		rt.OrderPolicy = k.Pol
		if k.Kind == "decode" {
			c06Decode(c, k.Input, k.UseNumber)
		} else {
			var m map[string]interface{}
			json.Unmarshal(k.Map, &m)
			c06Encode(c, m, k.Enc, k.Safe, k.Prefix, k.Indent)
		}
		rt.OrderPolicy = rt.PolicySorted
		resetOptions()
	}})
}

func countBytes(v interface{}, set string) int {
	n := 0
	switch t := v.(type) {
	case string:
		for i := 0; i < len(t); i++ {
			if strings.IndexByte(set, t[i]) >= 0 {
				n++
			}
		}
	case map[string]interface{}:
		for k, e := range t {
			n += countBytes(k, set) + countBytes(e, set)
		}
	case []interface{}:
		for _, e := range t {
			n += countBytes(e, set)
		}
	}
	return n
}

func c06Encode(c *Ctx, m map[string]interface{}, enc string, safe bool, prefix, indent string) (nontrivial bool) {
	mv := mxj.Map(m)
	cas := func() interface{} {
		return c06Case{Kind: "encode", Map: json.RawMessage(jsonOf(m)), MapDump: dump(m), Enc: enc, Safe: safe, Prefix: prefix, Indent: indent, Pol: rt.OrderPolicy}
	}
	special := countBytes(m, "<>&")
	shape := "plain"
	if strings.Contains(dump(m), `\\u00`) {
		shape = "contains-literal-backslash-u-sequence"
	} else if special > 0 {
		shape = "html-special"
	}
	var out []byte
	var err error
	st, pan := protect(func() {
		switch enc {
		case "Json":
			if safe {
				out, err = mv.Json(true)
			} else {
				if len(m)%2 == 0 {
					out, err = mv.Json(false) // an explicit false means the default encoding
				} else {
					out, err = mv.Json()
				}
			}
		case "JsonIndent":
			if safe {
				out, err = mv.JsonIndent(prefix, indent, true)
			} else {
				if len(prefix)%2 == 0 {
					out, err = mv.JsonIndent(prefix, indent, false) // an explicit false means the default encoding
				} else {
					out, err = mv.JsonIndent(prefix, indent)
				}
			}
		case "Copy":
			var cp mxj.Map
			cp, err = mv.Copy()
			if err == nil && !deepEq(map[string]interface{}(cp), m) {
				err = fmt.Errorf("copy differs: %s", dump(cp))
			}
			out = []byte("copy")
		case "MapToJson":
			if safe {
				out, err = j2x.MapToJson(m, true)
			} else {
				out, err = j2x.MapToJson(m)
			}
		}
	})
	c.S.Transitions++
	c.S.Validated++
	if pan {
		c.Violate(enc, "panic", shape, cas, nil, st)
		return
	}
	if err != nil {
		c.Violate(enc, "error", shape, cas, nil, fmt.Sprintf("map=%s err=%v", dump(m), err))
		return
	}
	if enc == "Copy" {
		return special > 0
	}
	c.Retain(enc, out, cas)
	detail := func(what string) string {
		return fmt.Sprintf("%s\n map=%s\n %s(safe=%v prefix=%q indent=%q) = %q", what, dump(m), enc, safe, prefix, indent, out)
	}
	if !json.Valid(out) {
		c.Violate(enc, "valid-json", shape, cas, nil, detail("output is not valid JSON"))
		return true
	}
	back, derr := mxj.NewMapJson(out)
	c.S.Transitions++
	if derr != nil || !deepEq(map[string]interface{}(back), m) {
		c.Violate(enc, "lossless", shape, cas, nil, detail(fmt.Sprintf("decodes to %s err=%v", dump(back), derr)))
		return true
	}
	lit := 0
	for _, b := range out {
		if b == '<' || b == '>' || b == '&' {
			lit++
		}
	}
	if enc != "MapToJson" || safe { // (j2x.MapToJson's flag handling is C20's business; default mode is checked)
		if safe {
			if lit != 0 {
				c.Violate(enc, "safe-encoding", shape, cas, nil, detail("safe encoding shows <, > or & literally"))
			}
			var ref []byte
			if enc == "JsonIndent" {
				ref, _ = json.MarshalIndent(m, prefix, indent)
			} else {
				ref, _ = json.Marshal(m)
			}
			if !bytes.Equal(ref, out) && enc != "MapToJson" {
				c.Violate(enc, "safe-encoding", shape, cas, nil, detail(fmt.Sprintf("differs from encoding/json: %q", ref)))
			}
		} else if lit != special {
			c.Violate(enc, "default-encoding-literal", shape, cas, nil, detail(fmt.Sprintf("data has %d of <,>,& but the output shows %d literally", special, lit)))
		} else if enc != "MapToJson" {
			// "Just a wrapper on json.Marshal / json.MarshalIndent": apart from the three escapes the bytes are
			// those of encoding/json - the layout for every prefix / indent pair included
			var cb bytes.Buffer
			je := json.NewEncoder(&cb)
			je.SetEscapeHTML(false)
			je.Encode(m)
			ref := bytes.TrimSuffix(cb.Bytes(), []byte("\n"))
			if enc == "JsonIndent" {
				var ib bytes.Buffer
				json.Indent(&ib, ref, prefix, indent)
				ref = ib.Bytes()
			}
			if !bytes.Equal(ref, out) {
				c.Violate(enc, "default-encoding-layout", shape, cas, nil, detail(fmt.Sprintf("differs from encoding/json (escapes aside): %q", ref)))
			}
		}
	}
	c.Outcome(string(out))
	return special > 0
}

// c06Ref: what encoding/json says about the input, per the documented wrapping.
// returns (value, accept, ambiguousArrayTail)
func c06Ref(input string, useNumber bool) (map[string]interface{}, bool, bool) {
	if len(input) == 0 {
		return map[string]interface{}{}, true, false
	}
	dec := json.NewDecoder(strings.NewReader(input))
	if useNumber {
		dec.UseNumber()
	}
	var v interface{}
	if err := dec.Decode(&v); err != nil {
		return nil, false, false
	}
	switch t := v.(type) {
	case map[string]interface{}:
		return t, true, false
	case []interface{}:
		// the first value, wrapped under "object" - whatever follows it, exactly as for an object
		return map[string]interface{}{"object": t}, true, false
	case nil:
		return nil, true, false // top-level null: nil or empty Map accepted
	}
	return nil, false, false
}

func c06Decode(c *Ctx, input string, useNumber bool) (nontrivial bool) {
	cas := func() interface{} {
		return c06Case{Kind: "decode", Input: input, UseNumber: useNumber, Pol: rt.OrderPolicy}
	}
	mxj.JsonUseNumber = useNumber
	defer func() { mxj.JsonUseNumber = false }()
	exp, accept, amb := c06Ref(input, useNumber)
	var got mxj.Map
	var err error
	var gw []string
	inBuf, inCheck := guardedInput(input)
	st, pan := protect(func() { gw = globalWrites(func() { got, err = mxj.NewMapJson(inBuf) }) })
	inputDamage := inCheck()
	scribble(inBuf)
	if len(gw) > 0 {
		c.Count("decodes_that_wrote_package_state", 1) // informational, see C01
	}
	c.S.Transitions++
	c.S.Validated++
	shape := "object"
	ti := strings.TrimLeft(input, " ")
	if strings.HasPrefix(ti, "[") {
		shape = "array"
	} else if !strings.HasPrefix(ti, "{") {
		shape = "other"
	}
	if pan {
		c.Violate("NewMapJson", "panic", shape, cas, nil, st)
		return
	}
	if inputDamage != "" {
		c.Violate("NewMapJson", "input-buffer-written", shape, cas, nil, inputDamage)
		return
	}
	c.Outcome(fmt.Sprintf("%v|%s", err != nil, dump(got)))
	if !accept {
		if err == nil {
			c.Violate("NewMapJson", "accepts-what-encoding-json-rejects", shape, cas, nil, fmt.Sprintf("input=%q useNumber=%v: returned %s", input, useNumber, dump(got)))
		}
		return false
	}
	if err != nil {
		if amb {
			return false
		}
		c.Violate("NewMapJson", "rejects-what-encoding-json-accepts", shape, cas, nil, fmt.Sprintf("input=%q useNumber=%v: err=%v, encoding/json gives %s", input, useNumber, err, dump(exp)))
		return false
	}
	if exp == nil { // top-level null
		if len(got) != 0 {
			c.Violate("NewMapJson", "value", shape, cas, nil, fmt.Sprintf("input=%q: %s for a top-level null", input, dump(got)))
		}
		return false
	}
	if amb {
		// open corner (array followed by further bytes): the documented textual wrapping
		// {"object": <input> } is also an accepted reading when it happens to be valid JSON
		wdec := json.NewDecoder(strings.NewReader(`{"object":` + strings.TrimLeft(input, " \t\r\n") + `}`))
		if useNumber {
			wdec.UseNumber()
		}
		var wm map[string]interface{}
		if wdec.Decode(&wm) == nil && deepEq(map[string]interface{}(got), wm) {
			return true
		}
	}
	if !deepEq(map[string]interface{}(got), exp) {
		c.Violate("NewMapJson", "value", shape, cas, nil, fmt.Sprintf("input=%q useNumber=%v\n expected=%s\n   actual=%s", input, useNumber, dump(exp), dump(got)))
		return true
	}
	if useNumber {
		// numbers keep their exact text through decode -> Json
		out, jerr := got.Json()
		ref, _ := json.Marshal(exp)
		c.S.Transitions++
		if jerr != nil || !bytes.Equal(out, ref) {
			c.Violate("NewMapJson", "number-text", shape, cas, nil, fmt.Sprintf("input=%q: Json()=%q, expected %q err=%v", input, out, ref, jerr))
		}
	}
	return len(exp) > 0
}

func c06Run(c *Ctx) {
	mustBeDefault(c)
	bsu := "\\" + "u003c" // the six-character text backslash-u-0-0-3-c, as data
	c.S.Rule = "encode side: (a) every Map template with <= N nodes over keys {a, k} with leaves {\"s\", \"<&>\", 1.5, true, null} and (b) the structures {k:s}, {s:v}, {k:[s,{j:s}]} for every word s of <= 3 tokens over {<, >, &, backslash, quote, the six-character texts \\u003c \\u003e \\u0026 \\u2028 \\u2029 as data, u003c, U+0001, newline, a, e-acute, U+2028}; encoders Json, JsonIndent (4 prefix/indent pairs incl. both empty), Copy, j2x.MapToJson, default and safe encoding; oracle: valid JSON, NewMapJson(out) deep-equals the original, default mode shows every <,>,& of the data literally, safe mode shows none and is byte-identical to encoding/json; returned bytes retained and re-checked after later calls; plus a scale family (strings of 5000 / 70000 bytes with special characters throughout and at 4096-byte boundaries, 300 keys, a list of 1025 maps, nesting depth 100, numbers at the float64 boundaries). decode side: every byte string of <= K tokens over {{, }, [, ], \"a\", :, comma, 1, 1.0, null, true, space, x, form feed, U+00A0} with JsonUseNumber off and on; oracle: NewMapJson accepts exactly when encoding/json's Decoder decodes the first value as an object (or array, wrapped under \"object\") and returns the same value; number text survives with JsonUseNumber. non-trivial = data with <,>,& (encode) / accepted non-empty value (decode)."
	c.S.Assumptions = []string{"top-level null: nil or empty Map accepted"}
	n, k := 4, 5
	if c.Thorough {
		n, k = 5, 7
	}
	indents := [][2]string{{"", "  "}, {"", "\t"}, {" ", " "}, {"", ""}}
	encOne := func(mk func() map[string]interface{}) {
		type e struct {
			enc            string
			safe           bool
			prefix, indent string
		}
		es := []e{{"Json", false, "", ""}, {"Json", true, "", ""}, {"Copy", false, "", ""}, {"MapToJson", false, "", ""}, {"MapToJson", true, "", ""}}
		for _, in := range indents {
			es = append(es, e{"JsonIndent", false, in[0], in[1]}, e{"JsonIndent", true, in[0], in[1]})
		}
		for i, x := range es {
			if !c.Mine() {
				continue
			}
			c.S.States++
			c.S.Evaluations++
			c.S.Schedules++
			rt.OrderPolicy = rt.PolicySorted
			if i%2 == 1 {
				rt.OrderPolicy = rt.PolicyReverse
			}
			m := mk()
			if c06Encode(c, m, x.enc, x.safe, x.prefix, x.indent) {
				c.S.Nontrivial++
				c.Sample(map[string]interface{}{"map_dump": dump(m), "encoder": x.enc, "safe": x.safe})
			}
		}
	}
	g := newGen(GenP{Keys: []string{"a", "k"}, MaxList: 3, MaxKeys: 2, EmptyList: true, EmptyMap: true, ListInList: true, Leaves: []interface{}{"s", "<&>", 1.5, true, nullLeaf{}}})
	g.rootMaps(n, func(t *T) {
		encOne(func() map[string]interface{} { return inst(t, nil).(map[string]interface{}) })
	})
	alpha := []string{"<", ">", "&", "\\", "\"", bsu, "\\" + "u003e", "\\" + "u0026", "u003c", "\x01", "\n", "a", "é", " ", "\\" + "u2028", "\\" + "u2029"}
	seqs(alpha, 3, func(w []string) {
		s := strings.Join(w, "")
		encOne(func() map[string]interface{} { return map[string]interface{}{"k": s} })
		encOne(func() map[string]interface{} { return map[string]interface{}{s: "v"} })
		encOne(func() map[string]interface{} {
			return map[string]interface{}{"k": []interface{}{s, map[string]interface{}{"j": s}}}
		})
	})
	// scale family: strings of 5000 and 70000 bytes with the special characters spread through them (and
	// placed at 4096-byte boundaries), 300 keys, a list of 1025 members, nesting depth 100, numbers at the
	// float64 / int64 boundaries; also decoded back from the (large) input buffer with a guarded tail
	for _, mk := range c06Scale() {
		encOne(mk)
	}
	// decode side
	toks := []string{"{", "}", "[", "]", `"a"`, ":", ",", "1", "1.0", "null", "true", " ", "x", "\f", "\u00a0"}
	seqs(toks, k, func(w []string) {
		if !c.Mine() {
			return
		}
		in := strings.Join(w, "")
		for _, un := range []bool{false, true} {
			c.S.States++
			c.S.Evaluations++
			c.S.Schedules++
			if c06Decode(c, in, un) {
				c.S.Nontrivial++
				c.Sample(map[string]interface{}{"input": in, "use_number": un})
			}
		}
	})
	if c.Mine() {
		c06Decode(c, "", false)
		c.S.States++
	}
	rt.OrderPolicy = rt.PolicySorted
	resetOptions()
}

func c06Scale() []func() map[string]interface{} {
	var out []func() map[string]interface{}
	for _, n := range []int{5000, 70000} {
		n := n
		out = append(out, func() map[string]interface{} {
			b := []byte(strings.Repeat("abcdefg ", n/8))
			for i := 0; i < len(b); i += 97 {
				b[i] = "<>&\"\\\n"[i/97%6]
			}
			for _, at := range []int{4095, 4096, 4097, 8191, 8192} {
				if at < len(b) {
					b[at] = '<'
				}
			}
			s := string(b)
			return map[string]interface{}{"k": s, s[:200]: "v", "l": []interface{}{s, map[string]interface{}{"j": s}}}
		})
	}
	out = append(out, func() map[string]interface{} {
		m := map[string]interface{}{}
		for i := 0; i < 300; i++ {
			m["key<"+strconv.Itoa(i)] = float64(i)
		}
		return m
	}, func() map[string]interface{} {
		l := make([]interface{}, 1025)
		for i := range l {
			l[i] = map[string]interface{}{"i": float64(i), "s": "a&b"}
		}
		return map[string]interface{}{"l": l}
	}, func() map[string]interface{} {
		var v interface{} = "bottom<"
		for i := 0; i < 100; i++ {
			if i%2 == 0 {
				v = map[string]interface{}{"a": v}
			} else {
				v = []interface{}{v, "x"}
			}
		}
		return map[string]interface{}{"d": v}
	}, func() map[string]interface{} {
		return map[string]interface{}{"n": []interface{}{1.7976931348623157e308, -1.7976931348623157e308, 5e-324, 9007199254740993.0, 1e21, 1e-7, -0.0, 123456789012345680.0, 0.1}}
	})
	return out
}
