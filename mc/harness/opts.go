package main

import (
	"strings"

	mxj "github.com/clbanning/mxj/v2"
)

// Cfg is an option vector applied through the real setters.
type Cfg struct {
	AttrPrefix  string `json:"attr_prefix"` // default "-"
	KeyPrefix   string `json:"key_prefix"`  // default "#"
	Lower       bool   `json:"lower,omitempty"`
	Snake       bool   `json:"snake,omitempty"`
	SimpleMap   bool   `json:"simple_map,omitempty"`
	KeepSpaces  bool   `json:"keep_spaces,omitempty"`
	SeqNum      bool   `json:"seq_num,omitempty"`
	EscDec      bool   `json:"esc_dec,omitempty"`
	EscEnc      bool   `json:"esc_enc,omitempty"`
	EscEncFirst bool   `json:"esc_enc_first,omitempty"` // call XMLEscapeChars(true) before XMLEscapeCharsDecoder(true)
	Cast        bool   `json:"cast,omitempty"`          // the cast flag passed to decoders
	CastInt     bool   `json:"cast_int,omitempty"`
	NoFloat     bool   `json:"no_float,omitempty"` // CastValuesToFloat(false)
	NoBool      bool   `json:"no_bool,omitempty"`  // CastValuesToBool(false)
	NanInf      bool   `json:"nan_inf,omitempty"`
	CheckValid  bool   `json:"check_valid,omitempty"`
	GoEmpty     bool   `json:"go_empty,omitempty"`
	SkipTag     string `json:"skip_tag,omitempty"` // SetCheckTagToSkipFunc: skip this key
	DotNot      bool   `json:"dot_notation,omitempty"`
	FieldSep    string `json:"field_sep,omitempty"`
	UseNumber   bool   `json:"use_number,omitempty"`
	CastPerm    int    `json:"cast_setter_order,omitempty"`                   // index of the order in which the cast setters are called (0 = int, float, bool, nan/inf)
	NoOpSetters bool   `json:"explicit_default_setters_afterwards,omitempty"` // setters called with their current (default) value after the others: must change nothing
	Toggle      bool   `json:"toggle_forms,omitempty"`                        // boolean options are switched with the no-argument (toggle) form of their setter
}

func defCfg() Cfg { return Cfg{AttrPrefix: "-", KeyPrefix: "#"} }

func (c Cfg) textK() string { return c.KeyPrefix + "text" }

// optionVars: the package-level variables of mxj that are option state (what the setters write and what
// resetOptions restores), as of the tree the checks were written for. Any other package-level variable a
// tree under test may have - a cache, a table, a pool, a generation counter, a lazily set flag - is not
// option state: it is reported (counter) but never compared, because a correct implementation may keep
// such state. What it does to behaviour is judged by the behavioural oracles.
var optionVars = map[string]bool{
	"CustomDecoder":           true,
	"JsonUseNumber":           true,
	"KeyNotExistError":        true,
	"NO_ROOT":                 true,
	"NoRoot":                  true,
	"PathNotExistError":       true,
	"XmlCharsetReader":        true,
	"attrK":                   true,
	"attrPrefix":              true,
	"castNanInf":              true,
	"castToBool":              true,
	"castToFloat":             true,
	"castToInt":               true,
	"checkTagToSkip":          true,
	"commentK":                true,
	"decodeSimpleValuesAsMap": true,
	"defaultArraySize":        true,
	"directiveK":              true,
	"disableTrimWhiteSpace":   true,
	"fieldSep":                true,
	"handleXMPPStreamTag":     true,
	"includeTagSeqNum":        true,
	"instK":                   true,
	"jhandlerPollInterval":    true,
	"lenAttrPrefix":           true,
	"lowerCase":               true,
	"procinstK":               true,
	"seqK":                    true,
	"snakeCaseKeys":           true,
	"targetK":                 true,
	"textK":                   true,
	"trimRunes":               true,
	"useDotNotation":          true,
	"useGoXmlEmptyElemSyntax": true,
	"xhandlerPollInterval":    true,
	"xmlCheckIsValid":         true,
	"xmlEscapeChars":          true,
	"xmlEscapeCharsDecoder":   true,
}

// isOptionVar reports whether a "name=value" entry of the state dump belongs to the option state.
func isOptionVar(entry string) bool {
	i := strings.Index(entry, "=")
	return i > 0 && optionVars[entry[:i]] && !strings.HasPrefix(entry[i+1:], "aux:")
}

var baselineState []string

func initBaseline() {
	baselineState = mxj.VerifState()
}

// resetOptions sets every option back to its default through the public API.
func resetOptions() {
	mxj.SetAttrPrefix("-")
	mxj.IncludeTagSeqNum(false)
	mxj.CoerceKeysToLower(false)
	mxj.DisableTrimWhiteSpace(false)
	mxj.CoerceKeysToSnakeCase(false)
	mxj.CastValuesToInt(false)
	mxj.CastValuesToFloat(true)
	mxj.CastValuesToBool(true)
	mxj.CastNanInf(false)
	mxj.HandleXMPPStreamTag(false)
	mxj.DecodeSimpleValuesAsMap(false)
	mxj.SetCheckTagToSkipFunc(nil)
	mxj.XmlDefaultEmptyElemSyntax()
	mxj.XmlCheckIsValid(false)
	mxj.XMLEscapeCharsDecoder(false)
	mxj.XMLEscapeChars(false)
	mxj.SetFieldSeparator()
	mxj.SetArraySize(0)
	mxj.LeafUseDotNotation(false)
	mxj.JsonUseNumber = false
	mxj.CustomDecoder = nil
	resetKeyPrefix()
}

var curKeyPrefix = "#"

func resetKeyPrefix() {
	if curKeyPrefix != "#" {
		mxj.SetGlobalKeyMapPrefix("#")
		curKeyPrefix = "#"
	}
}

// stateDiff returns the differences between the current option state and the fresh-process state.
func stateDiff() string {
	cur := mxj.VerifState()
	var d []string
	base := map[string]bool{}
	for _, e := range baselineState {
		base[e] = true
	}
	for _, e := range cur {
		if isOptionVar(e) && !base[e] {
			d = append(d, e)
		}
	}
	return strings.Join(d, "; ")
}

// applyCfg resets to defaults and applies c.
func applyCfg(c Cfg) {
	resetOptions()
	// sw switches a boolean option away from its default: explicitly, or (c.Toggle) with the no-argument form
	sw := func(f func(...bool), v bool) {
		if c.Toggle {
			f()
		} else {
			f(v)
		}
	}
	if c.AttrPrefix != "-" {
		mxj.SetAttrPrefix(c.AttrPrefix)
	}
	if c.KeyPrefix != "" && c.KeyPrefix != "#" {
		mxj.SetGlobalKeyMapPrefix(c.KeyPrefix)
		curKeyPrefix = c.KeyPrefix
	}
	if c.Lower {
		sw(mxj.CoerceKeysToLower, true)
	}
	if c.Snake {
		sw(mxj.CoerceKeysToSnakeCase, true)
	}
	if c.SimpleMap {
		sw(mxj.DecodeSimpleValuesAsMap, true)
	}
	if c.KeepSpaces {
		sw(mxj.DisableTrimWhiteSpace, true)
	}
	if c.SeqNum {
		sw(mxj.IncludeTagSeqNum, true)
	}
	if c.EscEnc && c.EscEncFirst {
		sw(mxj.XMLEscapeChars, true)
	}
	if c.EscDec {
		sw(mxj.XMLEscapeCharsDecoder, true)
	}
	if c.EscEnc && !c.EscEncFirst {
		sw(mxj.XMLEscapeChars, true)
	}
	var casts []func()
	if c.CastInt {
		casts = append(casts, func() { sw(mxj.CastValuesToInt, true) })
	}
	if c.NoFloat {
		casts = append(casts, func() { sw(mxj.CastValuesToFloat, false) })
	}
	if c.NoBool {
		casts = append(casts, func() { sw(mxj.CastValuesToBool, false) })
	}
	if c.NanInf {
		casts = append(casts, func() { sw(mxj.CastNanInf, true) })
	}
	for _, i := range nthPerm(len(casts), c.CastPerm) {
		casts[i]()
	}
	if c.CheckValid {
		sw(mxj.XmlCheckIsValid, true)
	}
	if c.GoEmpty {
		mxj.XmlGoEmptyElemSyntax()
	}
	if c.SkipTag != "" {
		k := c.SkipTag
		mxj.SetCheckTagToSkipFunc(func(s string) bool { return s == k })
	}
	if c.DotNot {
		sw(mxj.LeafUseDotNotation, true)
	}
	if c.FieldSep != "" {
		mxj.SetFieldSeparator(c.FieldSep)
	}
	mxj.JsonUseNumber = c.UseNumber
	if c.NoOpSetters {
		// every boolean option that is still at its default is set to that default explicitly
		if !c.EscDec {
			mxj.XMLEscapeCharsDecoder(false)
		}
		if !c.EscEnc {
			mxj.XMLEscapeChars(false)
		}
		if !c.Lower {
			mxj.CoerceKeysToLower(false)
		}
		if !c.Snake {
			mxj.CoerceKeysToSnakeCase(false)
		}
		if !c.SimpleMap {
			mxj.DecodeSimpleValuesAsMap(false)
		}
		if !c.KeepSpaces {
			mxj.DisableTrimWhiteSpace(false)
		}
		if !c.SeqNum {
			mxj.IncludeTagSeqNum(false)
		}
		if !c.CastInt {
			mxj.CastValuesToInt(false)
		}
		if !c.NoFloat {
			mxj.CastValuesToFloat(true)
		}
		if !c.NoBool {
			mxj.CastValuesToBool(true)
		}
		if !c.NanInf {
			mxj.CastNanInf(false)
		}
		if !c.CheckValid {
			mxj.XmlCheckIsValid(false)
		}
		if !c.DotNot {
			mxj.LeafUseDotNotation(false)
		}
	}
}

// mustBeDefault is called by checks that assume default options.
func mustBeDefault(c *Ctx) {
	resetOptions()
	if d := stateDiff(); d != "" {
		c.Broken("options not at defaults after reset: %s", d)
	}
}

// nthPerm returns the k-th permutation (lexicographic, k taken modulo n!) of 0..n-1.
func nthPerm(n, k int) []int {
	f := 1
	for i := 2; i <= n; i++ {
		f *= i
	}
	if f > 0 {
		k %= f
	}
	items := make([]int, n)
	for i := range items {
		items[i] = i
	}
	var out []int
	for i := n; i >= 1; i-- {
		f /= i
		j := k / f
		k %= f
		out = append(out, items[j])
		items = append(items[:j], items[j+1:]...)
	}
	return out
}

func factorial(n int) int {
	f := 1
	for i := 2; i <= n; i++ {
		f *= i
	}
	return f
}
