package main

import (
	"encoding/json"
	"fmt"
	"strconv"
	"strings"

	mxj "github.com/clbanning/mxj/v2"
	rt "github.com/clbanning/mxj/v2/zzverifrt"
)

// C08 — Key search and sub-key filters are complete, exact and mutually consistent.

type c08Case struct {
	Map     json.RawMessage `json:"map"`
	Key     string          `json:"key,omitempty"`
	Path    string          `json:"path,omitempty"`
	SubKeys []string        `json:"subkeys,omitempty"`
	Sep     string          `json:"field_sep,omitempty"`
	Pol     int             `json:"order_policy"`
	Dag     string          `json:"map_with_shared_containers,omitempty"` // the Map is built by dagMaps()[Dag]: one map or list object reachable at several places ("map" shows it unfolded)
}

func init() {
	register(&Property{ID: "C08", Run: c08Run, Replay: func(c *Ctx, cas json.RawMessage, ch []int) {
		var k c08Case
		json.Unmarshal(cas, &k)
		m := retype(fromJSON(string(k.Map))).(map[string]interface{})
		if k.Dag != "" {
			m = dagMaps()[k.Dag]()
			curDag = k.Dag
			defer func() { curDag = "" }()
		}
		resetOptions()
		if k.Sep != "" {
			mxj.SetFieldSeparator(k.Sep)
		}
		run := func() {
			if k.Path != "" {
				c08PathFilter(c, m, k.Path, k.SubKeys, k.Sep, ch)
			} else {
				c08Key(c, m, k.Key, ch)
				if len(k.SubKeys) > 0 {
					c08KeyFilter(c, m, k.Key, k.SubKeys, k.Sep, ch)
				}
			}
		}
		if len(ch) > 0 {
			rt.OrderPolicy = rt.PolicyChoose
			runWith(ch, run)
		} else {
			rt.OrderPolicy = k.Pol
			run()
		}
		rt.OrderPolicy = rt.PolicySorted
		resetOptions()
	}})
}

// ---- reference

func refEmit(x interface{}, out *[]interface{}) {
	if l, ok := x.([]interface{}); ok {
		*out = append(*out, l...)
		return
	}
	*out = append(*out, x)
}

// refKey: every value stored under key k at any depth, lists expanded, "*" = every key.
func refKey(n interface{}, k string, out *[]interface{}) {
	switch t := n.(type) {
	case map[string]interface{}:
		if k == "*" {
			for _, kk := range sortedKeys(t) {
				refEmit(t[kk], out)
			}
		} else if v, ok := t[k]; ok {
			refEmit(v, out)
		}
		for _, kk := range sortedKeys(t) {
			refKey(t[kk], k, out)
		}
	case []interface{}:
		for _, e := range t {
			refKey(e, k, out)
		}
	}
}

// refKeyPaths: the distinct dot-paths that end in k.
func refKeyPaths(n interface{}, k, crumbs string, out map[string]bool) {
	switch t := n.(type) {
	case map[string]interface{}:
		join := func(s string) string {
			if crumbs == "" {
				return s
			}
			return crumbs + "." + s
		}
		if _, ok := t[k]; ok {
			out[join(k)] = true
		}
		for kk, v := range t {
			refKeyPaths(v, k, join(kk), out)
		}
	case []interface{}:
		for _, e := range t {
			refKeyPaths(e, k, crumbs, out)
		}
	}
}

// cond is one parsed sub-key condition.
type cond struct {
	key  string
	val  interface{} // string, bool, float64
	wild bool
	neg  bool
}

func parseCond(spec, sep string) cond {
	if sep == "" {
		sep = ":"
	}
	p := strings.Split(spec, sep)
	c := cond{key: p[0], val: p[1]}
	if strings.HasPrefix(c.key, "!") {
		c.neg = true
		c.key = c.key[1:]
	}
	if p[1] == "*" {
		c.wild = true
	}
	if len(p) == 3 {
		switch p[2] {
		case "bool", "boolean":
			b, _ := strconv.ParseBool(p[1])
			c.val = b
		case "num", "float", "float64", "number", "numeric":
			f, _ := strconv.ParseFloat(p[1], 64)
			c.val = f
		}
	}
	return c
}

// refSubKeys: does map m satisfy every condition? negAbsent selects the reading of a negated
// condition with a concrete value on an absent key (ambiguity set).
func refSubKeys(v interface{}, conds []cond, negAbsent bool) bool {
	if len(conds) == 0 {
		return true
	}
	m, ok := v.(map[string]interface{})
	if !ok {
		return false
	}
	for _, c := range conds {
		x, present := m[c.key]
		var holds bool
		switch {
		case c.wild:
			holds = present
		case !present:
			if c.neg {
				if !negAbsent {
					return false
				}
				continue
			}
			return false
		default:
			switch cv := c.val.(type) {
			case string:
				s, ok := x.(string)
				holds = ok && s == cv
			case bool:
				b, ok := x.(bool)
				holds = ok && b == cv
			case float64:
				f, ok := x.(float64)
				if n, isN := x.(json.Number); isN { // the library's own decoder under JsonUseNumber
					if nf, err := n.Float64(); err == nil {
						f, ok = nf, true
					}
				}
				switch i := x.(type) { // ... and under CastValuesToInt
				case int64:
					f, ok = float64(i), true
				case uint64:
					f, ok = float64(i), true
				case int:
					f, ok = float64(i), true
				}
				holds = ok && f == cv
			}
		}
		if c.neg {
			holds = !holds
		}
		if !holds {
			return false
		}
	}
	return true
}

func c08Shape(m map[string]interface{}, key string) string {
	if hasListInList(m) {
		return "list-in-list"
	}
	if key == "*" {
		return "wildcard-key"
	}
	return "plain"
}

// keyBelowListInList: does key k occur somewhere below a list nested directly in a list?
func keyBelowLIL(n interface{}, k string, inLIL bool) bool {
	switch t := n.(type) {
	case map[string]interface{}:
		if _, ok := t[k]; ok && inLIL {
			return true
		}
		for _, v := range t {
			if keyBelowLIL(v, k, inLIL) {
				return true
			}
		}
	case []interface{}:
		for _, e := range t {
			if _, isL := e.([]interface{}); isL {
				if keyBelowLIL(e, k, true) {
					return true
				}
			} else if keyBelowLIL(e, k, inLIL) {
				return true
			}
		}
	}
	return false
}

// c08Key checks ValuesForKey / ValueForKey / PathsForKey / PathForKeyShortest / consistency.
func c08Key(c *Ctx, m map[string]interface{}, key string, choices []int) (nontrivial bool) {
	mv := mxj.Map(m)
	cas := func() interface{} {
		return c08Case{Dag: curDag, Map: json.RawMessage(jsonOf(m)), Key: key, Pol: rt.OrderPolicy}
	}
	shape := c08Shape(m, key)
	var exp []interface{}
	refKey(m, key, &exp)
	expD := sortedCopy(dumpSeq(exp))

	var got []interface{}
	var err error
	st, pan := protect(func() { got, err = mv.ValuesForKey(key) })
	c.S.Transitions++
	if pan {
		c.Violate("Map.ValuesForKey", "panic", shape, cas, choices, st)
		return
	}
	c.RetainVal("Map.ValuesForKey", got, cas)
	if !c.NoAlias("Map.ValuesForKey", got, m, shape, cas, choices) {
		return len(exp) > 0
	}
	gotD := sortedCopy(dumpSeq(got))
	if err != nil || !eqStrings(gotD, expD) {
		c.Violate("Map.ValuesForKey", "values", shape, cas, choices, fmt.Sprintf("map=%s key=%q\n expected=%v\n   actual=%v err=%v", jsonOf(m), key, expD, gotD, err))
		return len(exp) > 0
	}
	c.Outcome(strings.Join(gotD, "|"))
	// ValueForKey: a member, or KeyNotExistError
	var one interface{}
	st, pan = protect(func() { one, err = mv.ValueForKey(key) })
	c.S.Transitions++
	if pan {
		c.Violate("Map.ValueForKey", "panic", shape, cas, choices, st)
	} else if len(exp) == 0 {
		if err == nil {
			c.Violate("Map.ValueForKey", "first-value", shape, cas, choices, fmt.Sprintf("map=%s key=%q: no values but no error (value %s)", jsonOf(m), key, dump(one)))
		}
	} else {
		d, found := dump(one), false
		for _, g := range gotD {
			if g == d {
				found = true
			}
		}
		if err != nil || !found {
			c.Violate("Map.ValueForKey", "first-value", shape, cas, choices, fmt.Sprintf("map=%s key=%q: %s not among %v (err=%v)", jsonOf(m), key, d, gotD, err))
		}
	}
	if key == "*" {
		return len(exp) > 0
	}
	// PathsForKey = the set of distinct paths ending in key
	expP := map[string]bool{}
	refKeyPaths(m, key, "", expP)
	var paths []string
	var shortest string
	st, pan = protect(func() { paths = mv.PathsForKey(key); shortest = mv.PathForKeyShortest(key) })
	c.S.Transitions += 2
	if pan {
		c.Violate("Map.PathsForKey", "panic", shape, cas, choices, st)
		return len(exp) > 0
	}
	c.RetainVal("Map.PathsForKey", paths, cas)
	seen := map[string]bool{}
	okPaths := len(paths) == len(expP)
	for _, p := range paths {
		if seen[p] || !expP[p] {
			okPaths = false
		}
		seen[p] = true
	}
	if !okPaths {
		var e []string
		for p := range expP {
			e = append(e, p)
		}
		c.Violate("Map.PathsForKey", "paths", shape, cas, choices, fmt.Sprintf("map=%s key=%q\n expected=%v\n   actual=%v", jsonOf(m), key, sortedCopy(e), sortedCopy(paths)))
		return len(exp) > 0
	}
	// shortest: a member with minimal segment count ("" when there is none)
	if len(expP) == 0 {
		if shortest != "" {
			c.Violate("Map.PathForKeyShortest", "shortest", shape, cas, choices, fmt.Sprintf("map=%s key=%q: %q for an absent key", jsonOf(m), key, shortest))
		}
	} else {
		min := 1 << 30
		for p := range expP {
			if n := len(strings.Split(p, ".")); n < min {
				min = n
			}
		}
		if !expP[shortest] || len(strings.Split(shortest, ".")) != min {
			c.Violate("Map.PathForKeyShortest", "shortest", shape, cas, choices, fmt.Sprintf("map=%s key=%q: %q is not a shortest member of %v", jsonOf(m), key, shortest, sortedCopy(paths)))
		}
	}
	// consistency: values found through the paths are exactly the values ValuesForKey returns
	var via []string
	for _, p := range paths {
		var vs []interface{}
		st, pan = protect(func() { vs, err = mv.ValuesForPath(p) })
		c.S.Transitions++
		if pan || err != nil {
			c.Violate("Map.ValuesForPath", "panic-or-error-on-PathsForKey-result", shape, cas, choices, fmt.Sprintf("path=%q %s %v", p, st, err))
			return len(exp) > 0
		}
		if !c.NoAlias("Map.ValuesForPath", vs, m, shape, cas, choices) {
			return len(exp) > 0
		}
		via = append(via, dumpSeq(vs)...)
	}
	via = sortedCopy(via)
	if !eqStrings(via, gotD) {
		sh := shape
		if keyBelowLIL(m, key, false) {
			sh = "key-below-list-in-list"
		}
		c.Violate("Map.PathsForKey", "consistency", sh, cas, choices, fmt.Sprintf("map=%s key=%q paths=%v\n ValuesForKey      =%v\n via ValuesForPath =%v", jsonOf(m), key, sortedCopy(paths), gotD, via))
	}
	return len(exp) > 0
}

// filterExpect computes the acceptable filtered results (one per reading of the ambiguity set).
func filterExpect(unfiltered []interface{}, conds []cond) [][]string {
	var out [][]string
	// a negated condition is documented as an "exclusion criteria": a map that lacks the key does not meet the
	// criterion and is not excluded (until the second bug-hunt round both readings were accepted - an ambiguity
	// that came from the code, not from the documentation)
	for _, negAbsent := range []bool{true} {
		var r []interface{}
		for _, v := range unfiltered {
			if refSubKeys(v, conds, negAbsent) {
				r = append(r, v)
			}
		}
		out = append(out, dumpSeq(r))
	}
	return out
}

func c08KeyFilter(c *Ctx, m map[string]interface{}, key string, specs []string, sep string, choices []int) (nontrivial bool) {
	mv := mxj.Map(m)
	cas := func() interface{} {
		return c08Case{Dag: curDag, Map: json.RawMessage(jsonOf(m)), Key: key, SubKeys: specs, Sep: sep, Pol: rt.OrderPolicy}
	}
	var conds []cond
	for _, s := range specs {
		conds = append(conds, parseCond(s, sep))
	}
	var unf, got []interface{}
	var err error
	st, pan := protect(func() {
		unf, _ = mv.ValuesForKey(key)
		got, err = mv.ValuesForKey(key, specs...)
	})
	c.S.Transitions += 2
	if pan {
		c.Violate("Map.ValuesForKey(subkeys)", "panic", "subkeys", cas, choices, st)
		return
	}
	if err != nil {
		c.Violate("Map.ValuesForKey(subkeys)", "error-on-wellformed-subkeys", "subkeys", cas, choices, err.Error())
		return
	}
	gotD := sortedCopy(dumpSeq(got))
	exps := filterExpect(unf, conds)
	ok := false
	for _, e := range exps {
		if eqStrings(sortedCopy(e), gotD) {
			ok = true
		}
	}
	if !ok {
		c.Violate("Map.ValuesForKey(subkeys)", "pure-filter", c08FilterShape(conds), cas, choices, fmt.Sprintf("map=%s key=%q subkeys=%v\n unfiltered=%v\n expected  =%v\n actual    =%v", jsonOf(m), key, specs, dumpSeq(unf), exps[0], gotD))
	}
	c.Outcome("f:" + strings.Join(gotD, "|"))
	return len(got) > 0 && len(got) < len(unf)
}

func c08FilterShape(conds []cond) string {
	neg, wild, typed := false, false, false
	for i, c := range conds {
		for _, d := range conds[:i] {
			if c.key == d.key {
				// known finding C08-two-conditions-on-one-key has exactly this shape
				return "two-conditions-on-one-key"
			}
		}
	}
	for _, c := range conds {
		if c.neg {
			neg = true
		}
		if c.wild {
			wild = true
		}
		if _, ok := c.val.(string); !ok {
			typed = true
		}
	}
	s := fmt.Sprintf("conds=%d", len(conds))
	if neg {
		s += ",negated"
	}
	if wild {
		s += ",wildcard"
	}
	if typed {
		s += ",typed"
	}
	return s
}

func c08PathFilter(c *Ctx, m map[string]interface{}, path string, specs []string, sep string, choices []int) (nontrivial bool) {
	mv := mxj.Map(m)
	cas := func() interface{} {
		return c08Case{Dag: curDag, Map: json.RawMessage(jsonOf(m)), Path: path, SubKeys: specs, Sep: sep, Pol: rt.OrderPolicy}
	}
	var conds []cond
	for _, s := range specs {
		conds = append(conds, parseCond(s, sep))
	}
	var unf, got []interface{}
	var err error
	var ex bool
	st, pan := protect(func() {
		unf, _ = mv.ValuesForPath(path)
		got, err = mv.ValuesForPath(path, specs...)
		ex, _ = mv.Exists(path, specs...)
	})
	c.S.Transitions += 3
	if pan {
		c.Violate("Map.ValuesForPath(subkeys)", "panic", "subkeys", cas, choices, st)
		return
	}
	if err != nil {
		c.Violate("Map.ValuesForPath(subkeys)", "error-on-wellformed-subkeys", "subkeys", cas, choices, err.Error())
		return
	}
	if !c.NoAlias("Map.ValuesForPath(subkeys)", got, m, "subkeys", cas, choices) || !c.NoAlias("Map.ValuesForPath", unf, m, "subkeys", cas, choices) {
		return
	}
	gotD := dumpSeq(got)
	exps := filterExpect(unf, conds)
	ok := false
	wild := strings.Contains(path, "*")
	for _, e := range exps {
		if wild {
			if eqStrings(sortedCopy(e), sortedCopy(gotD)) {
				ok = true
			}
		} else if eqStrings(e, gotD) {
			ok = true
		}
	}
	if !ok {
		c.Violate("Map.ValuesForPath(subkeys)", "pure-filter", c08FilterShape(conds), cas, choices, fmt.Sprintf("map=%s path=%q subkeys=%v\n unfiltered=%v\n expected  =%v\n actual    =%v", jsonOf(m), path, specs, dumpSeq(unf), exps[0], gotD))
	} else if ex != (len(got) > 0) {
		c.Violate("Map.Exists(subkeys)", "exists", c08FilterShape(conds), cas, choices, fmt.Sprintf("map=%s path=%q subkeys=%v: Exists=%v but %d values", jsonOf(m), path, specs, ex, len(got)))
	}
	c.Outcome("p:" + strings.Join(gotD, "|"))
	return len(got) > 0 && len(got) < len(unf)
}

func c08Run(c *Ctx) {
	mustBeDefault(c)
	c.S.Rule = "part 1 (search): every Map template with <= N nodes over keys {a,bbbb,k} plus the sibling family {a:[M1,M2]} (Mi every map template with <= 4 nodes over {a,k}) (lists, list-in-list, empty containers, unique leaves) x keys {a,b,k,z,*}: ValuesForKey/ValueForKey vs reference, PathsForKey as a set, PathForKeyShortest minimal, and values-through-paths = ValuesForKey. part 2 (filters): every Map template with <= M nodes over keys {a,k} with typed leaves {\"s\",1,true} x key/path x every set of 1..2 sub-key conditions over {a (maybe present), z (absent)} x {matching, non-matching, *} x {untyped, :string, :bool, :num} x {plain, negated}, under field separators ':', '|', the two-byte character U+00A6 and the two-character '::' (plus sub-key texts that are well formed under both separators with different meanings, used under one separator after the other, back and forth; number-typed conditions in 22 spellings x 5 type names x plain/negated): filtered result = maps of the unfiltered result satisfying the reference predicate. Each case runs under ascending and descending map order; cases that range over >= 2 keys are also explored under every single order deviation (E-choice bound 1). Result slices are retained (last 16) and re-checked after every later call. non-trivial = key present (part 1) / filter keeps a proper non-empty subset (part 2). Plus 8 Maps with shared containers (one map or list object reachable at several places: a value in the shared part counts once per path that reaches it) x keys {k,a,ab,*,z} x 5 sub-key sets."
	c.S.Assumptions = []string{"reference search/filter semantics in harness/c08.go written from the documentation"}
	n1, n2, ech := 6, 5, 5
	if c.Thorough {
		n1, n2, ech = 7, 6, 6
	}
	explore := func(nodes int, f func(choices []int)) {
		rt.OrderPolicy = rt.PolicySorted
		f(nil)
		c.S.Schedules++
		c.S.Validated++
		rt.OrderPolicy = rt.PolicyReverse
		f(nil)
		c.S.Schedules++
		c.S.Validated++
		if nodes <= ech {
			rt.OrderPolicy = rt.PolicyChoose
			e := &Explorer{Bound: 1, MaxExecs: 3000, Run: func() { f(curExec.prefix) }, Check: func(x *Exec) bool { return true }}
			e.Explore()
			c.S.Schedules += e.Execs
			c.S.Validated += e.Execs
			if e.CapHit {
				c.Cap("E-choice executions per case capped at 3000")
				c.S.Exhaustive = false
			}
			if e.Diverged != "" {
				c.Broken("C08: %s", e.Diverged)
			}
			c.S.BoundCompleted = 1
		}
		rt.OrderPolicy = rt.PolicySorted
	}
	// part 1
	// one key is long, so that a shallower path can have more characters than a deeper one
	g := newGen(GenP{Keys: []string{"a", "bbbb", "k"}, MaxList: 3, MaxKeys: 3, EmptyList: true, EmptyMap: true, ListInList: true})
	part1 := func(t *T) {
		nodes := countNodes(t)
		for _, key := range []string{"a", "bbbb", "k", "z", "*"} {
			if !c.Mine() {
				continue
			}
			c.S.States++
			c.S.Evaluations++
			first := true
			explore(nodes, func(ch []int) {
				m := inst(t, strLeaves()).(map[string]interface{})
				nt := c08Key(c, m, key, ch)
				if first && nt {
					c.S.Nontrivial++
					c.Sample(map[string]interface{}{"map": json.RawMessage(jsonOf(m)), "key": key})
				}
				first = false
			})
		}
	}
	g.rootMaps(n1, part1)
	// sibling family: a list of 2..3 small maps under one key (the shape repeated XML elements decode to),
	// beyond the node bound of the plain enumeration
	gs := newGen(GenP{Keys: []string{"a", "k"}, MaxList: 2, MaxKeys: 2, EmptyList: false, EmptyMap: true, ListInList: false})
	var sibs []*T
	gs.values(4, func(t *T) {
		if t.Kind == 'M' {
			sibs = append(sibs, t)
		}
	})
	for _, m1 := range sibs {
		for _, m2 := range sibs {
			part1(&T{Kind: 'M', Keys: []string{"a"}, Kids: []*T{{Kind: 'L', Kids: []*T{m1, m2}}}})
			if c.Thorough {
				for _, m3 := range sibs[:6] {
					part1(&T{Kind: 'M', Keys: []string{"k"}, Kids: []*T{{Kind: 'L', Kids: []*T{m1, m2, m3}}}})
				}
			}
		}
	}
	// Maps that hold a key literally named "*": the wildcard still means every key, each value once
	gstar := newGen(GenP{Keys: []string{"a", "*", "k"}, MaxList: 2, MaxKeys: 3, EmptyList: false, EmptyMap: true, ListInList: false})
	gstar.rootMaps(4, func(t *T) {
		if !strings.Contains(t.String(), "*") {
			return
		}
		for _, key := range []string{"*", "a", "k"} {
			if !c.Mine() {
				continue
			}
			c.S.States++
			c.S.Evaluations++
			for _, pol := range []int{rt.PolicySorted, rt.PolicyReverse} {
				rt.OrderPolicy = pol
				c08Key(c, inst(t, strLeaves()).(map[string]interface{}), key, nil)
				c.S.Schedules++
			}
			rt.OrderPolicy = rt.PolicySorted
		}
	})
	// wide family: more results than the internal initial capacity (32) and its first doubling (64)
	for _, width := range []int{31, 32, 33, 63, 64, 65, 70} {
		for _, key := range []string{"k", "x", "*", "w05", "l", "m"} {
			if !c.Mine() {
				continue
			}
			c.S.States++
			c.S.Evaluations++
			width := width
			explore(99, func(ch []int) {
				wm := map[string]interface{}{}
				wl := make([]interface{}, width)
				for i := 0; i < width; i++ {
					wm[fmt.Sprintf("w%02d", i)] = map[string]interface{}{"k": fmt.Sprintf("m%d", i)}
					wl[i] = map[string]interface{}{"k": fmt.Sprintf("l%d", i), "x": []interface{}{fmt.Sprintf("x%d", i)}}
				}
				c08Key(c, map[string]interface{}{"m": wm, "l": wl}, key, ch)
			})
		}
	}
	// Maps with shared containers (one map or list object reachable at several places)
	for _, name := range dagNames() {
		mk := dagMaps()[name]
		curDag = name
		for _, key := range []string{"k", "a", "ab", "*", "z"} {
			if !c.Mine() {
				continue
			}
			c.S.States++
			c.S.Evaluations++
			explore(8, func(ch []int) { c08Key(c, mk(), key, ch) })
			for _, set := range [][]string{{"a:*"}, {"!a:*"}, {"a:s"}, {"k:v1"}, {"!k:v1"}} {
				for _, pol := range []int{rt.PolicySorted, rt.PolicyReverse} {
					rt.OrderPolicy = pol
					c08KeyFilter(c, mk(), key, set, "", nil)
					c08PathFilter(c, mk(), "*.*."+key, set, "", nil)
					c.S.Schedules += 2
				}
				rt.OrderPolicy = rt.PolicySorted
			}
		}
		curDag = ""
	}
	// part 2
	var specsFor = func(sep string) [][]string {
		var single []string
		for _, k := range []string{"a", "z"} {
			for _, neg := range []string{"", "!"} {
				for _, v := range []string{"s", "q", "*", "s" + sep + "string", "true" + sep + "bool", "false" + sep + "boolean", "1" + sep + "num", "2" + sep + "float"} {
					single = append(single, neg+k+sep+v)
				}
			}
		}
		var sets [][]string
		for _, s := range single {
			sets = append(sets, []string{s})
		}
		for i, s := range single {
			for j := i + 1; j < len(single); j++ {
				// two conditions on one key are a combination like any other ("satisfy every condition"); a
				// fifth of them is enough to cover every kind of pair
				sameKey := strings.TrimPrefix(strings.Split(s, sep)[0], "!") == strings.TrimPrefix(strings.Split(single[j], sep)[0], "!")
				if sameKey && (i+j)%5 != 0 {
					continue
				}
				// pairs: keep those mixing a and z or plain and negated
				sets = append(sets, []string{s, single[j]})
			}
		}
		return sets
	}
	g2 := newGen(GenP{Keys: []string{"a", "k"}, MaxList: 3, MaxKeys: 2, EmptyList: false, EmptyMap: true, ListInList: false,
		Leaves: []interface{}{"s", 1.0, true}})
	for _, sep := range []string{":", "|", "\u00a6", "::"} { // one byte, one byte, one two-byte character, two characters
		sets := specsFor(sep)
		if c.Shard == 0 {
			c.Count("subkey_sets_"+sep, int64(len(sets)))
		}
		sepApplied := false
		g2.rootMaps(n2, func(t *T) {
			nodes := countNodes(t)
			for _, target := range []string{"key:k", "key:a", "key:*", "path:k", "path:k.k", "path:*", "path:k.*", "path:k[0]", "path:k[1]", "path:a.k[0]"} {
				for si, set := range sets {
					if sep == "|" && si%4 != 0 && !c.Thorough {
						continue // alternative separator on a quarter of the sets in quick
					}
					if len(sep) > 1 && si%8 != 0 && !c.Thorough {
						continue // multi-byte separators on an eighth of the sets in quick
					}
					if !c.Mine() {
						continue
					}
					if !sepApplied {
						mxj.SetFieldSeparator(sep)
						sepApplied = true
					}
					c.S.States++
					c.S.Evaluations++
					first := true
					fsep := ""
					if sep != ":" {
						fsep = sep
					}
					explore(nodes+len(set)*10, func(ch []int) { // sub-key cases: ascending + descending order only
						m := inst(t, nil).(map[string]interface{})
						var nt bool
						if strings.HasPrefix(target, "key:") {
							nt = c08KeyFilter(c, m, target[4:], set, fsep, ch)
						} else {
							nt = c08PathFilter(c, m, target[5:], set, fsep, ch)
						}
						if first && nt {
							c.S.Nontrivial++
							c.Sample(map[string]interface{}{"map": json.RawMessage(jsonOf(m)), "target": target, "subkeys": set})
						}
						first = false
					})
				}
			}
		})
		mxj.SetFieldSeparator()
	}
	// the same sub-key text under both separators in one process: "a|s:s" is (key "a|s" = "s") under ':' and
	// (key "a" = "s:s") under '|'; separators switched back and forth between the calls
	amb := []string{`{"k":[{"a|s":"s","a":"q"},{"a":"s:s"},{"a|s":"q","a":"s:s"},{"a":"s"}]}`, `{"k":{"a":"s:s","k":[{"a|s":"s"},{"a":"s:s","k":1}]},"a":{"k":{"a|s":"s"}}}`}
	for _, js := range amb {
		for _, text := range []string{"a|s:s", "!a|s:s", "a|s:*", "a:s|s", "a|*:x"} {
			if !c.Mine() {
				continue
			}
			c.S.States++
			c.S.Evaluations++
			for round := 0; round < 2; round++ {
				for _, sep := range []string{":", "|"} {
					// the text must be a two- or three-field spec under this separator
					if n := len(strings.Split(text, sep)); n < 2 || n > 3 {
						continue
					}
					mxj.SetFieldSeparator(sep)
					fsep := ""
					if sep != ":" {
						fsep = sep
					}
					for _, pol := range []int{rt.PolicySorted, rt.PolicyReverse} {
						rt.OrderPolicy = pol
						c08KeyFilter(c, fromJSON(js).(map[string]interface{}), "k", []string{text}, fsep, nil)
						c08PathFilter(c, fromJSON(js).(map[string]interface{}), "k", []string{text}, fsep, nil)
						c08PathFilter(c, fromJSON(js).(map[string]interface{}), "k.k", []string{text}, fsep, nil)
						c.S.Schedules += 3
					}
					rt.OrderPolicy = rt.PolicySorted
				}
			}
			mxj.SetFieldSeparator()
		}
	}
	// number-typed conditions in every spelling strconv.ParseFloat accepts or rejects: the condition holds
	// exactly for members whose value equals the float64 the text denotes; a text that is not a number is an error
	numMap := `{"k":[{"a":8},{"a":10},{"a":16},{"a":1000},{"a":0},{"a":64},{"a":2},{"a":"010"},{"z":10}]}`
	for _, sp := range []string{"10", "010", "0100", "0010", "08", "0x10", "0X10", "0o10", "0b10", "1_000", "+10", "1e1", "10.0", "-0", "0", "1E3", ".8e1", "8.", "١٠", "1e", "", " 10"} {
		for _, typ := range []string{"num", "number", "float", "numeric", "float64"} {
			for _, neg := range []string{"", "!"} {
				if !c.Mine() {
					continue
				}
				c.S.States++
				c.S.Evaluations++
				c.S.Schedules++
				c08NumSpelling(c, numMap, neg+"a:"+sp+":"+typ, sp, neg == "!", "")
				if typ == "num" {
					// the same Map as the library's own decoders return it under JsonUseNumber (json.Number leaves)
					// and under CastValuesToInt (int64 leaves)
					c08NumSpelling(c, numMap, neg+"a:"+sp+":"+typ, sp, neg == "!", "json-number")
					c08NumSpelling(c, numMap, neg+"a:"+sp+":"+typ, sp, neg == "!", "int64")
					c.S.Schedules += 2
				}
			}
		}
	}
	// sub-key sets with two conditions under every order of the condition table (E-choice) on a small family
	small := []string{`{"k":[{"a":"s","b":1},{"a":"q"},{"b":1}]}`, `{"k":{"a":"s"},"a":{"k":{"a":true}}}`}
	for _, js := range small {
		for _, set := range specsFor(":") {
			if len(set) != 2 || !c.Mine() {
				continue
			}
			c.S.States++
			c.S.Evaluations++
			explore(1, func(ch []int) {
				c08KeyFilter(c, fromJSON(js).(map[string]interface{}), "k", set, "", ch)
			})
			explore(1, func(ch []int) {
				c08PathFilter(c, fromJSON(js).(map[string]interface{}), "k", set, "", ch)
			})
		}
	}
	resetOptions()
}

// c08NumSpelling: one number-typed condition on the key "a" of the members of list k.
func c08NumSpelling(c *Ctx, js, spec, spelling string, negated bool, variant string) {
	m := fromJSON(js).(map[string]interface{})
	switch variant {
	case "json-number":
		d := json.NewDecoder(strings.NewReader(js))
		d.UseNumber()
		m = map[string]interface{}{}
		d.Decode(&m)
	case "int64":
		for _, e := range m["k"].([]interface{}) {
			em := e.(map[string]interface{})
			for k, v := range em {
				if f, ok := v.(float64); ok && f == float64(int64(f)) {
					em[k] = int64(f)
				}
			}
		}
	}
	cas := func() interface{} {
		return c08Case{Map: json.RawMessage(jsonOf(untype(m))), Key: "k", SubKeys: []string{spec}, Pol: rt.OrderPolicy}
	}
	want, perr := strconv.ParseFloat(spelling, 64)
	var got []interface{}
	var err error
	st, pan := protect(func() { got, err = mxj.Map(m).ValuesForKey("k", spec) })
	c.S.Transitions++
	c.S.Validated++
	if pan {
		c.Violate("Map.ValuesForKey(subkeys)", "panic", "number-spelling", cas, nil, st)
		return
	}
	if perr != nil {
		if err == nil {
			c.Violate("Map.ValuesForKey(subkeys)", "pure-filter", "number-spelling", cas, nil, fmt.Sprintf("sub-key %q: %q is not a number (%v), yet the call succeeded with %v", spec, spelling, perr, dumpSeq(got)))
		}
		return
	}
	if err != nil {
		c.Violate("Map.ValuesForKey(subkeys)", "error-on-wellformed-subkeys", "number-spelling", cas, nil, fmt.Sprintf("sub-key %q: %v", spec, err))
		return
	}
	var exp []string
	var expAlt []string // negated condition on a member without the key: both readings accepted (see assumptions)
	for _, e := range m["k"].([]interface{}) {
		em := e.(map[string]interface{})
		v, present := em["a"]
		f, isNum := v.(float64)
		if n, isN := v.(json.Number); isN {
			f, _ = n.Float64()
			isNum = true
		}
		if i, isI := v.(int64); isI {
			f, isNum = float64(i), true
		}
		holds := present && isNum && f == want
		if negated {
			if present && !holds {
				exp = append(exp, dump(e))
				expAlt = append(expAlt, dump(e))
			} else if !present {
				exp = append(exp, dump(e))
			}
		} else if holds {
			exp = append(exp, dump(e))
			expAlt = append(expAlt, dump(e))
		}
	}
	g := sortedCopy(dumpSeq(got))
	_ = expAlt // (the second reading of a negated condition on an absent key is no longer accepted)
	if !eqStrings(g, sortedCopy(exp)) {
		c.Violate("Map.ValuesForKey(subkeys)", "pure-filter", "number-spelling", cas, nil, fmt.Sprintf("sub-key %q denotes the number %v\n expected=%v\n   actual=%v", spec, want, sortedCopy(exp), g))
	}
}
