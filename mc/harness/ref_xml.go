package main

import (
	"strconv"
	"strings"
)

// Reference decode conventions for NewMapXml, computed from the abstract tree (shares no
// code with encoding/xml or mxj).

func refFold(name string, c Cfg) string {
	if c.Lower {
		name = strings.ToLower(name)
	}
	if c.Snake {
		name = strings.ReplaceAll(name, "-", "_")
	}
	return name
}

func refEsc(s string) string {
	s = strings.ReplaceAll(s, "&", "&amp;")
	s = strings.ReplaceAll(s, "<", "&lt;")
	s = strings.ReplaceAll(s, ">", "&gt;")
	s = strings.ReplaceAll(s, `"`, "&quot;")
	s = strings.ReplaceAll(s, "'", "&apos;")
	return s
}

func refTrim(s string, c Cfg) string {
	cut := "\t\r\b\n "
	if c.KeepSpaces {
		cut = "\t\r\b\n"
	}
	return strings.Trim(s, cut)
}

// refCast: the documented cast rule. key is the Map key the value is stored under (for the skip function).
func refCast(s string, c Cfg, key string) interface{} {
	if c.SkipTag != "" && key == c.SkipTag {
		return s
	}
	if !c.Cast {
		return s
	}
	if c.CastInt {
		if i, err := strconv.ParseInt(s, 10, 64); err == nil {
			return i
		}
		if u, err := strconv.ParseUint(s, 10, 64); err == nil {
			return u
		}
	}
	if !c.NoFloat {
		if f, err := strconv.ParseFloat(s, 64); err == nil {
			if c.NanInf || !(f != f || f > 1.7976931348623157e308 || f < -1.7976931348623157e308) {
				return f
			}
		}
	}
	if !c.NoBool && len(s) > 0 {
		switch s[0] {
		case 't', 'T', 'f', 'F':
			if b, err := strconv.ParseBool(s); err == nil {
				return b
			}
		}
	}
	return s
}

func refAdd(m map[string]interface{}, k string, v interface{}) {
	if old, ok := m[k]; ok {
		if l, isL := old.([]interface{}); isL {
			m[k] = append(l, v)
		} else {
			m[k] = []interface{}{old, v}
		}
		return
	}
	m[k] = v
}

// refDecode returns the Map the conventions prescribe for the document.
func refDecode(root *XElem, c Cfg) map[string]interface{} {
	return map[string]interface{}{refFold(root.Local, c): refElem(root, c)}
}

func refElem(e *XElem, c Cfg) interface{} {
	m := map[string]interface{}{}
	for _, a := range e.Attrs {
		local := a.Local
		if c.Snake {
			local = strings.ReplaceAll(local, "-", "_")
		}
		// CoerceKeysToLower is documented as folding the token's Name.Local: the prefix is not part of it
		if c.Lower {
			local = strings.ToLower(local)
		}
		key := c.AttrPrefix + local
		v := a.Value
		if c.EscDec {
			v = refEsc(v)
		}
		m[key] = refCast(v, c, key)
	}
	seq := 0
	text, hasText := "", false
	textFirst := false
	for _, it := range e.Items {
		switch it.Kind {
		case 'e':
			v := refElem(it.Elem, c)
			if c.SeqNum {
				if vm, ok := v.(map[string]interface{}); ok {
					vm["_seq"] = seq
				} else {
					v = map[string]interface{}{c.textK(): v, "_seq": seq}
				}
				seq++
			}
			refAdd(m, refFold(it.Elem.Local, c), v)
		case 't':
			t := refTrim(it.Text, c)
			if c.EscDec {
				t = refEsc(t)
			}
			if t != "" {
				text, hasText = t, true
				textFirst = len(m) == 0
			}
		}
	}
	_ = textFirst
	if hasText {
		if len(m) > 0 || c.SimpleMap {
			m[c.textK()] = refCast(text, c, c.textK())
		} else {
			return refCast(text, c, refFold(e.Local, c))
		}
	}
	if len(m) == 0 {
		return ""
	}
	return m
}

// normSeq turns "_seq" values given as digit strings into ints (the documentation shows
// "0", the code stores 0; both are accepted).
func normSeq(v interface{}) interface{} {
	switch t := v.(type) {
	case map[string]interface{}:
		for k, e := range t {
			if k == "_seq" {
				if s, ok := e.(string); ok {
					if n, err := strconv.Atoi(s); err == nil {
						t[k] = n
					}
				}
				if f, ok := e.(float64); ok && f == float64(int(f)) {
					t[k] = int(f)
				}
				continue
			}
			normSeq(e)
		}
	case []interface{}:
		for _, e := range t {
			normSeq(e)
		}
	}
	return v
}
