package main

import (
	"bytes"
	"encoding/json"
	"fmt"
	"io"
	"strconv"
	"strings"

	mxj "github.com/clbanning/mxj/v2"
	"github.com/clbanning/mxj/v2/x2j"
	rt "github.com/clbanning/mxj/v2/zzverifrt"
)

// C01 — XML decodes to the Map the documented conventions prescribe, under all options.

type c01Case struct {
	Doc  *XElem `json:"doc"`
	Rv   int    `json:"rendering"`
	Cfg  Cfg    `json:"cfg"`
	Text string `json:"xml"`
	Pol  int    `json:"order_policy,omitempty"`
}

func init() {
	register(&Property{ID: "C01", Run: c01Run, Replay: func(c *Ctx, cas json.RawMessage, ch []int) {
		var k c01Case
		json.Unmarshal(cas, &k)
		applyCfg(k.Cfg)
		rt.OrderPolicy = k.Pol
		c01Check(c, k.Doc, k.Rv, k.Cfg, true)
		rt.OrderPolicy = rt.PolicySorted
		resetOptions()
	}})
}

// plainReader hides ReadByte (forces mxj's own byte reader wrapper).
type plainReader struct{ r io.Reader }

func (p plainReader) Read(b []byte) (int, error) { return p.r.Read(b) }

func c01Shape(doc *XElem) string {
	var f []string
	mixed, nsd, coll, cdata := false, false, false, false
	for _, e := range doc.elems() {
		hasT, hasE := false, false
		names := map[string]int{}
		for _, it := range e.Items {
			if it.Kind == 't' && strings.TrimSpace(it.Text) != "" {
				hasT = true
				if it.CData {
					cdata = true
				}
			}
			if it.Kind == 'e' {
				hasE = true
				names[strings.ToLower(strings.ReplaceAll(it.Elem.Local, "-", "_"))]++
			}
		}
		for _, a := range e.Attrs {
			if names[strings.ToLower(strings.ReplaceAll(a.Local, "-", "_"))] > 0 {
				coll = true
			}
		}
		if hasT && (hasE || len(e.Attrs) > 0) {
			mixed = true
		}
		if e.Prefix != "" {
			nsd = true
		}
	}
	if mixed {
		f = append(f, "text-beside-attrs-or-children")
	}
	if nsd {
		f = append(f, "namespaced")
	}
	if coll {
		f = append(f, "attr-child-collision")
	}
	if cdata {
		f = append(f, "cdata")
	}
	if len(f) == 0 {
		return "plain"
	}
	return strings.Join(f, ",")
}

func c01Check(c *Ctx, doc *XElem, rv int, cfg Cfg, allEntry bool) {
	xmlText := renderDoc(doc, rv)
	exp := refDecode(doc, cfg)
	cas := func() interface{} { return c01Case{Doc: doc, Rv: rv, Cfg: cfg, Text: xmlText, Pol: rt.OrderPolicy} }
	var m mxj.Map
	var err error
	var gw []string
	inBuf, inCheck := guardedInput(xmlText)
	st, pan := protect(func() { gw = globalWrites(func() { m, err = mxj.NewMapXml(inBuf, cfg.Cast) }) })
	inputDamage := inCheck()
	scribble(inBuf) // the caller reuses its buffer: the Map must not share memory with it
	c.S.Transitions++
	c.S.Validated++
	if len(gw) > 0 {
		// informational only: a decoder that writes package state (a cache, a pool) is not wrong by
		// itself; its effect on later calls is what the history passes and the retained-result oracle test
		c.Count("decodes_that_wrote_package_state", 1)
	}
	if pan {
		c.Violate("NewMapXml", "panic", c01Shape(doc), cas, nil, st)
		return
	}
	if inputDamage != "" {
		c.Violate("NewMapXml", "input-buffer-written", c01Shape(doc), cas, nil, inputDamage)
		return
	}
	if err != nil {
		c.Violate("NewMapXml", "error-on-wellformed", c01Shape(doc), cas, nil, fmt.Sprintf("xml=%q cfg=%+v err=%v", xmlText, cfg, err))
		return
	}
	got := normSeq(map[string]interface{}(m))
	if !deepEq(got, exp) {
		c.Violate("NewMapXml", "conventions", c01Shape(doc), cas, nil, fmt.Sprintf("xml=%q cfg=%+v\n expected=%s\n   actual=%s", xmlText, cfg, dump(exp), dump(got)))
		return
	}
	c.Outcome(dump(got))
	if !allEntry {
		return
	}
	// a second decode of the same text is an independent value: equal, sharing no map or list with the first
	if m2, err2 := mxj.NewMapXml([]byte(xmlText), cfg.Cast); err2 != nil || !deepEq(normSeq(map[string]interface{}(m2)), exp) {
		c.Violate("NewMapXml", "second-decode-differs", c01Shape(doc), cas, nil, fmt.Sprintf("xml=%q: decoding the same text again gives %s (err=%v), first gave %s", xmlText, dump(m2), err2, dump(got)))
	} else {
		a, b := map[uintptr]bool{}, map[uintptr]bool{}
		rt.Containers(map[string]interface{}(m), a)
		rt.Containers(map[string]interface{}(m2), b)
		for p := range a {
			if b[p] {
				c.Violate("NewMapXml", "decodes-share-structure", c01Shape(doc), cas, nil, fmt.Sprintf("xml=%q: two decodes of the same text share a map or list", xmlText))
				break
			}
		}
	}
	// the other entry points must agree with NewMapXml
	type ep struct {
		name string
		f    func() (map[string]interface{}, error)
		cast bool
	}
	var raw []byte
	eps := []ep{
		{"NewMapXmlReader(ByteReader)", func() (map[string]interface{}, error) {
			return mxj.NewMapXmlReader(bytes.NewReader([]byte(xmlText)), cfg.Cast)
		}, cfg.Cast},
		{"NewMapXmlReader(io.Reader)", func() (map[string]interface{}, error) {
			if !cfg.Cast && len(xmlText)%2 == 0 {
				return mxj.NewMapXmlReader(plainReader{strings.NewReader(xmlText)}) // no argument = false
			}
			return mxj.NewMapXmlReader(plainReader{strings.NewReader(xmlText)}, cfg.Cast)
		}, cfg.Cast},
		{"NewMapXmlReaderRaw", func() (map[string]interface{}, error) {
			var mm mxj.Map
			var r []byte
			var e error
			if !cfg.Cast && len(xmlText)%2 == 1 {
				mm, r, e = mxj.NewMapXmlReaderRaw(strings.NewReader(xmlText)) // no argument = false
			} else {
				mm, r, e = mxj.NewMapXmlReaderRaw(strings.NewReader(xmlText), cfg.Cast)
			}
			raw = r
			return mm, e
		}, cfg.Cast},
		{"x2j.XmlToMap", func() (map[string]interface{}, error) { return x2j.XmlToMap([]byte(xmlText)) }, false},
	}
	for _, e := range eps {
		want := exp
		if e.cast != cfg.Cast {
			c2 := cfg
			c2.Cast = false
			want = refDecode(doc, c2)
		}
		var mm map[string]interface{}
		var err error
		st, pan := protect(func() { mm, err = e.f() })
		c.S.Transitions++
		c.S.Validated++
		if pan {
			c.Violate(e.name, "panic", c01Shape(doc), cas, nil, st)
			continue
		}
		if err != nil || !deepEq(normSeq(mm), want) {
			c.Violate(e.name, "entry-point-agreement", c01Shape(doc), cas, nil, fmt.Sprintf("xml=%q cfg=%+v\n expected=%s\n   actual=%s err=%v", xmlText, cfg, dump(want), dump(mm), err))
		}
		if e.name == "NewMapXmlReaderRaw" && err == nil {
			// raw is a prefix of the text containing the root element
			if !strings.HasPrefix(xmlText, string(raw)) || !strings.Contains(string(raw), "<"+doc.qname()) {
				c.Violate(e.name, "raw", c01Shape(doc), cas, nil, fmt.Sprintf("xml=%q raw=%q", xmlText, raw))
			}
		}
	}
}

// c01Decos lists the single decorations applicable to a base tree.
func c01Decos(base *XElem, thorough bool) []Deco {
	var ds []Deco
	els := base.elems()
	attrNames := []string{"x", "y", "x-y", "n:x", "X", "a"}
	attrVals := []string{"v", "1", " v ", "<&\"'>", "it's", "\"q\""}
	textVals := []string{"t", " t ", "1", "1.5", "true", "a&b<c>", "\tt\n", "x y", "it's", "\"q\"", "\u00a0t\u2028", "\u3000", "010", "\u010dx\u2020"}
	renames := []string{"B", "a-b", "a_b", "n:a", "A", "\u00c9a", "\u212a"}
	for i, e := range els {
		nk := len(e.Items)
		for ai, an := range attrNames {
			for vi, av := range attrVals {
				if !thorough && ai > 1 && vi > 0 {
					continue // quick: full value set only for the first two names
				}
				ds = append(ds, Deco{Kind: 'a', El: i, Name: an, Value: av})
			}
		}
		for pos := 0; pos <= nk; pos++ {
			for ti, tv := range textVals {
				ds = append(ds, Deco{Kind: 't', El: i, Pos: pos, Value: tv})
				if ti == 0 || ti == 4 {
					ds = append(ds, Deco{Kind: 't', El: i, Pos: pos, Value: tv, CData: true})
				}
			}
			// one text run written as plain text and a CDATA section side by side (either order): the value is the whole run
			ds = append(ds, Deco{Kind: 't', El: i, Pos: pos, Value: "x1 <2", Split: 2}, Deco{Kind: 't', El: i, Pos: pos, Value: "4&5", Split: -2})
			// ... and in three pieces whose middle one is blank: CDATA, blank text, CDATA / text, blank CDATA, text
			ds = append(ds, Deco{Kind: 't', El: i, Pos: pos, Value: "al be", Split: -2, Split2: 3}, Deco{Kind: 't', El: i, Pos: pos, Value: "x \ty", Split: 1, Split2: 3})
			ds = append(ds, Deco{Kind: 'c', El: i, Pos: pos, Value: " c "})
			if pos == 0 || thorough {
				ds = append(ds, Deco{Kind: 'p', El: i, Pos: pos, Value: "do it"})
			}
		}
		for _, rn := range renames {
			ds = append(ds, Deco{Kind: 'n', El: i, Name: rn})
		}
	}
	return ds
}

// foldedDup reports whether two attributes of one element fold to the same key, or an
// element name starts with a prefix in use (outside the universe).
func c01OutOfUniverse(doc *XElem) bool {
	for _, e := range doc.elems() {
		seen := map[string]bool{}
		for _, a := range e.Attrs {
			k := strings.ToLower(strings.ReplaceAll(a.Local, "-", "_"))
			if seen[k] {
				return true
			}
			seen[k] = true
		}
		// two non-blank text runs
		n := 0
		for i, it := range e.Items {
			if it.Kind == 't' {
				n++
				if i > 0 && e.Items[i-1].Kind == 't' {
					return true
				}
			}
		}
		if n > 1 {
			return true
		}
	}
	return false
}

// c01CastCfgs: cast sub-option combinations (the flags must be independent of each other).
func c01CastCfgs() []Cfg {
	var out []Cfg
	for bits := 0; bits < 8; bits++ {
		out = append(out, Cfg{AttrPrefix: "-", KeyPrefix: "#", Cast: true, CastInt: bits&1 != 0, NoFloat: bits&2 != 0, NoBool: bits&4 != 0})
	}
	return out
}

func c01Cfgs(maxDev int) []Cfg {
	var out []Cfg
	for _, ap := range []string{"-", "", "@", "A_"} {
		for _, kp := range []string{"#", "_"} {
			for bits := 0; bits < 128; bits++ {
				dev := 0
				if ap != "-" {
					dev++
				}
				if ap == "A_" && (bits&1 == 0 || bits&^(1|2|64) != 0 || kp != "#") {
					continue // the prefix with a capital letter: with key folding on, and snake case / cast at most
				}
				if kp != "#" {
					dev++
				}
				for b := 0; b < 7; b++ {
					if bits&(1<<b) != 0 {
						dev++
					}
				}
				if maxDev >= 0 && dev > maxDev {
					continue
				}
				out = append(out, Cfg{AttrPrefix: ap, KeyPrefix: kp, Lower: bits&1 != 0, Snake: bits&2 != 0, SimpleMap: bits&4 != 0,
					KeepSpaces: bits&8 != 0, SeqNum: bits&16 != 0, EscDec: bits&32 != 0, Cast: bits&64 != 0})
			}
		}
	}
	return out
}

func c01Run(c *Ctx) {
	mustBeDefault(c)
	c.S.Rule = "cases = (document, rendering, configuration): documents are all element trees with <= N elements (child names over {a,b}, fan-out <= 3) decorated with <= D decorations (attribute incl. namespaced/case/snake variants and a name colliding with a child under an empty prefix; one text run at every position, plain or CDATA or written as two or three adjacent plain/CDATA pieces incl. a blank middle piece, with blanks/specials/number and boolean look-alikes; comment / processing instruction at every position; renamed element: case, hyphen/underscore, namespace prefix); every document (quick: trees with fewer than N elements) x all 768 configurations (3 attribute prefixes x 2 key prefixes x 2^7 of lower, [plus the attribute prefix 'A_' with a capital letter under key folding] snake, simple-as-map, keep-spaces, seq numbers, decoder escaping, cast) for <= 1 decoration, and x all configurations with <= 2 option deviations for 2 decorations; plus all 8 combinations of the cast-to-int/float/bool sub-options with the cast flag on; a scale family (33-1025 repeated and interleaved siblings, 33/129 attributes, nesting depth 64/300, text and names of 300/5000 bytes) under configurations with <= 1 deviation; rendering variants (empty-element form, quoting, blanks in tags, inter-element whitespace, prolog, character references) explored one deviation at a time. non-trivial = expected Map contains a list, a text key or an attribute."
	c.S.Assumptions = []string{"reference decode conventions in harness/ref_xml.go, computed from the abstract tree", "_seq accepted as int or digit string", "attribute values containing tab/newline are rendered as character references"}
	maxElems, maxElems2 := 4, 3
	if c.Thorough {
		maxElems, maxElems2 = 5, 4
	}
	allCfgs := c01Cfgs(-1)
	cfgs2 := c01Cfgs(2)

	type job struct {
		doc *XElem
		rv  int
	}
	// Phase A: <= 1 decoration, all configurations. Documents are generated once, configurations outermost.
	var docsA, docsA2 []job
	for n := 1; n <= maxElems; n++ {
		for _, base := range baseTrees(n, "r", []string{"a", "b"}, 3) {
			dst := &docsA
			if n == maxElems && !c.Thorough {
				dst = &docsA2 // quick: the largest trees meet the configurations with <= 2 option deviations only
			}
			*dst = append(*dst, job{base, rvDefault})
			for _, d := range c01Decos(base, c.Thorough) {
				if doc, ok := applyDecos(base, []Deco{d}); ok && !c01OutOfUniverse(doc) {
					*dst = append(*dst, job{doc, rvDefault})
				}
			}
		}
	}
	// Phase B: 2 decorations on the smaller trees, configurations with <= 2 deviations
	var docsB []job
	for n := 1; n <= maxElems2; n++ {
		for _, base := range baseTrees(n, "r", []string{"a", "b"}, 3) {
			ds := c01Decos(base, false)
			for i := range ds {
				for j := i + 1; j < len(ds); j++ {
					if doc, ok := applyDecos(base, []Deco{ds[i], ds[j]}); ok && !c01OutOfUniverse(doc) {
						docsB = append(docsB, job{doc, rvDefault})
					}
				}
			}
		}
	}
	if c.Shard == 0 {
		c.Count("documents_le1_decoration", int64(len(docsA)+len(docsA2)))
		c.Count("documents_2_decorations", int64(len(docsB)))
		c.Count("configurations", int64(len(allCfgs)))
	}
	nontrivial := func(doc *XElem) bool {
		for _, e := range doc.elems() {
			if len(e.Attrs) > 0 {
				return true
			}
			names := map[string]bool{}
			for _, it := range e.Items {
				if it.Kind == 't' && len(e.Items) > 1 {
					return true
				}
				if it.Kind == 'e' {
					if names[it.Elem.Local] {
						return true
					}
					names[it.Elem.Local] = true
				}
			}
		}
		return false
	}
	run := func(cfgs []Cfg, docs []job, phase string) {
		for ci, cfg := range cfgs {
			applied := false
			for _, j := range docs {
				// rendering variants: default for every configuration; the other variants one at a time
				for rv := 0; rv < rvCount; rv++ {
					if rv != rvDefault && ci%16 != rv {
						continue // each non-default rendering is paired with 1/16 of the configurations
					}
					if cfg.KeepSpaces && (rv == rvWsSpace || rv == rvWsNLSp) {
						continue // a run of spaces is text by definition when blanks are kept
					}
					if !c.Mine() {
						continue
					}
					if !applied {
						applyCfg(cfg)
						applied = true
					}
					c.S.States++
					c.S.Evaluations++
					c.S.Schedules++
					c01Check(c, j.doc, rv, cfg, rv == rvDefault && ci%4 == 0)
					if nontrivial(j.doc) {
						c.S.Nontrivial++
						c.Sample(map[string]interface{}{"xml": renderDoc(j.doc, rv), "cfg": cfg})
					}
				}
			}
			if c.Capped() {
				break
			}
		}
	}
	run(allCfgs, docsA, "A")
	run(cfgs2, docsA2, "A-largest-trees")
	run(cfgs2, docsB, "B")
	run(c01CastCfgs(), docsA, "A-cast-suboptions")
	// history pass: the same decodes again with the configurations visited in the opposite order, so
	// that state a decoder may keep between calls (a key cache, a memo table) meets every
	// configuration both before and after its neighbours
	var small []job
	for _, j := range docsA {
		if len(j.doc.elems()) <= 2 {
			small = append(small, j)
		}
	}
	rev := append([]Cfg(nil), cfgs2...)
	for i, j := 0, len(rev)-1; i < j; i, j = i+1, j-1 {
		rev[i], rev[j] = rev[j], rev[i]
	}
	run(rev, small, "history-reverse-configuration-order")
	// scale family: documents far beyond the element bound in one dimension at a time - repeated siblings
	// (list growth through 33, 65, 129, 257, 1025 members), interleaved repeated siblings, many attributes,
	// deep nesting (64, 300 levels), long text and long names (300, 5000 bytes) - under the configurations
	// with <= 1 option deviation
	var scale []job
	for _, doc := range c01Scale() {
		scale = append(scale, job{doc, rvDefault})
	}
	run(c01Cfgs(1), scale, "scale")
	// map-order: the decoder only ranges over singleton maps; explore reverse order on phase A / default cfg anyway
	rt.OrderPolicy = rt.PolicyReverse
	run(c01Cfgs(1), docsA, "A-reverse-order")
	rt.OrderPolicy = rt.PolicySorted
	resetOptions()
	// (the end-of-run state comparison is done for every property in main.go)
}

// c01Scale: documents that are large in one dimension.
func c01Scale() []*XElem {
	var out []*XElem
	leaf := func(name, text string) XItem {
		e := &XElem{Local: name}
		if text != "" {
			e.Items = []XItem{{Kind: 't', Text: text}}
		}
		return XItem{Kind: 'e', Elem: e}
	}
	for _, n := range []int{33, 65, 129, 257, 1025} {
		// n repeated siblings; the same interleaved with a second name; with an attribute on every third
		r1 := &XElem{Local: "r"}
		r2 := &XElem{Local: "r"}
		for i := 0; i < n; i++ {
			r1.Items = append(r1.Items, leaf("a", "v"+strconv.Itoa(i)))
			nm := "a"
			if i%2 == 1 {
				nm = "b"
			}
			it := leaf(nm, "w"+strconv.Itoa(i))
			if i%3 == 0 {
				it.Elem.Attrs = []XAttr{{Local: "x", Value: strconv.Itoa(i)}}
			}
			r2.Items = append(r2.Items, it)
		}
		out = append(out, r1, r2)
	}
	for _, n := range []int{33, 129} {
		e := &XElem{Local: "r", Items: []XItem{leaf("a", "t")}}
		for i := 0; i < n; i++ {
			e.Attrs = append(e.Attrs, XAttr{Local: "x" + strconv.Itoa(i), Value: "v" + strconv.Itoa(i)})
		}
		out = append(out, e)
	}
	for _, depth := range []int{64, 300} {
		root := &XElem{Local: "r"}
		cur := root
		for i := 0; i < depth; i++ {
			nm := "a"
			if i%2 == 1 {
				nm = "b"
			}
			nx := &XElem{Local: nm}
			if i%7 == 0 {
				nx.Attrs = []XAttr{{Local: "x", Value: "1"}}
			}
			cur.Items = append(cur.Items, XItem{Kind: 'e', Elem: nx})
			cur = nx
		}
		cur.Items = []XItem{{Kind: 't', Text: "bottom"}}
		out = append(out, root)
	}
	for _, n := range []int{300, 5000} {
		long := strings.Repeat("x y&z", n/5)
		out = append(out, &XElem{Local: "r", Attrs: []XAttr{{Local: "x", Value: long}}, Items: []XItem{{Kind: 't', Text: long}, leaf("a", long)}})
		name := strings.Repeat("n", n)
		out = append(out, &XElem{Local: "r", Items: []XItem{leaf(name, "v"), leaf(name, "w")}, Attrs: []XAttr{{Local: name, Value: "1"}}})
	}
	return out
}
