package main

import (
	"bytes"
	"encoding/json"
	"encoding/xml"
	"fmt"
	"io"
	"strings"

	mxj "github.com/clbanning/mxj/v2"
	x2jw "github.com/clbanning/mxj/v2/x2j-wrapper"
	rt "github.com/clbanning/mxj/v2/zzverifrt"
)

// C15 — Decoders and string-argument APIs are total: errors are returned, never panics.

type c15Case struct {
	Kind   string          `json:"kind"` // bytes | args
	Input  []byte          `json:"input,omitempty"`
	Text   string          `json:"input_text,omitempty"`
	API    string          `json:"api"`
	Map    json.RawMessage `json:"map,omitempty"`
	MapStr string          `json:"map_dump,omitempty"`
	Args   []string        `json:"args,omitempty"`
	Cfg    *Cfg            `json:"options,omitempty"` // decoder options in force (nil = defaults)
}

// c15Cfg: the decoder options in force for the current part (a) case (nil = defaults). The acceptance
// oracle does not depend on it: no option is documented to change which inputs a decoder accepts.
var c15Cfg *Cfg

func init() {
	register(&Property{ID: "C15", Run: c15Run, Replay: func(c *Ctx, cas json.RawMessage, ch []int) {
		var k c15Case
		json.Unmarshal(cas, &k)
		resetOptions()
		if k.Kind == "bytes" {
			if k.Cfg != nil {
				applyCfg(*k.Cfg)
				c15Cfg = k.Cfg
			}
			c15Bytes(c, k.Input, k.API)
			c15Cfg = nil
		} else if k.Kind == "stall" {
			n := 0
			fmt.Sscan(k.Args[0], &n)
			c15Stall(c, k.Input, n, k.API)
		} else {
			var m map[string]interface{}
			json.Unmarshal(k.Map, &m)
			c15Args(c, m, k.API, k.Args)
		}
		resetOptions()
	}})
}

// limitedReader: a plain reader (not a ByteReader) with a horizon on the number of Read calls.
type horizonReader struct {
	data  []byte
	pos   int
	calls int
	max   int
}

func (h *horizonReader) Read(p []byte) (int, error) {
	h.calls++
	if h.calls > h.max {
		panic("reader horizon exhausted: the call does not terminate")
	}
	if h.pos >= len(h.data) {
		return 0, io.EOF
	}
	n := copy(p, h.data[h.pos:])
	h.pos += n
	return n, nil
}

// Reader kinds: the decoders take an io.Reader, whose dynamic type may be a pointer, a function type or a
// struct held by value (the last two are not comparable with ==). hrKind selects the kind newHR builds;
// every reader-form case runs with each kind, the non-pointer kinds twice in a row.
var hrKind int

type funcReader func(p []byte) (int, error)

func (f funcReader) Read(p []byte) (int, error) { return f(p) }

type valReader struct {
	h    *horizonReader
	tags []string // makes the struct type uncomparable
}

func (v valReader) Read(p []byte) (int, error) { return v.h.Read(p) }

func newHR(b []byte) io.Reader {
	h := &horizonReader{data: b, max: 20*len(b) + 200}
	switch hrKind {
	case 1:
		return funcReader(h.Read)
	case 2:
		return valReader{h: h}
	}
	return h
}

// stallReader delivers the first n bytes one at a time and then answers (0, nil) for ever: a legal
// but useless io.Reader. The decoders must give up with an error, not spin or panic.
type stallReader struct {
	data  []byte
	n     int
	pos   int
	calls int
}

func (s *stallReader) Read(p []byte) (int, error) {
	s.calls++
	if s.calls > 5000 {
		panic("stalling reader polled more than 5000 times: the call does not terminate")
	}
	if s.pos < s.n && s.pos < len(s.data) && len(p) > 0 {
		p[0] = s.data[s.pos]
		s.pos++
		return 1, nil
	}
	return 0, nil
}

func c15Stall(c *Ctx, in []byte, n int, api string) {
	cas := func() interface{} {
		return c15Case{Kind: "stall", Input: in, Text: string(in), API: api, Args: []string{fmt.Sprint(n)}}
	}
	c.S.Transitions++
	c.S.Validated++
	var err error
	var m map[string]interface{}
	st, pan := protect(func() {
		r := &stallReader{data: in, n: n}
		switch api {
		case "NewMapXmlReader":
			m, err = mxj.NewMapXmlReader(r)
		case "NewMapXmlReaderRaw":
			m, _, err = mxj.NewMapXmlReaderRaw(r)
		case "NewMapXmlSeqReader":
			m, err = mxj.NewMapXmlSeqReader(r)
		case "NewMapXmlSeqReaderRaw":
			m, _, err = mxj.NewMapXmlSeqReaderRaw(r)
		case "NewMapJsonReader":
			m, err = mxj.NewMapJsonReader(r)
		case "NewMapJsonReaderRaw":
			m, _, err = mxj.NewMapJsonReaderRaw(r)
		case "HandleXmlReaderRaw":
			err = mxj.HandleXmlReaderRaw(r, func(mxj.Map, []byte) bool { return true }, func(error, []byte) bool { return false })
		case "HandleJsonReaderRaw":
			err = mxj.HandleJsonReaderRaw(r, func(mxj.Map, []byte) bool { return true }, func(error, []byte) bool { return false })
		}
	})
	if pan {
		c.Violate(api, "panic", "stalling-reader", cas, nil, fmt.Sprintf("input=%q stalls after %d bytes\n%s", in, n, st))
		return
	}
	c.Outcome(fmt.Sprintf("stall|%s|%v|%d", api, err != nil, len(m)))
	if err == nil && n < len(in) && !strings.HasPrefix(api, "Handle") {
		// the first document is incomplete: a Map without an error would be a partial result
		if len(m) > 0 && !xmlFirstDocOK(in[:n]) && !strings.Contains(api, "Json") {
			c.Violate(api, "partial-map-with-error", "stalling-reader", cas, nil, fmt.Sprintf("input=%q stalls after %d bytes: returned %s without error", in, n, dump(m)))
		}
	}
}

// xmlFirstDocOK: does encoding/xml's Token() accept the input up to the end of the first root element?
func xmlFirstDocOK(b []byte) bool {
	d := xml.NewDecoder(bytes.NewReader(b))
	depth := 0
	for {
		t, err := d.Token()
		if err != nil {
			return false
		}
		switch t.(type) {
		case xml.StartElement:
			depth++
		case xml.EndElement:
			depth--
			if depth == 0 {
				return true
			}
		}
	}
}

// xmlSeqFirstDoc: RawToken plus name matching. returns "ok", "noroot" or "bad".
func xmlSeqFirstDoc(b []byte) string {
	d := xml.NewDecoder(bytes.NewReader(b))
	var stack []string
	for {
		t, err := d.RawToken()
		if err != nil {
			return "bad"
		}
		switch tt := t.(type) {
		case xml.StartElement:
			stack = append(stack, qn(tt.Name))
		case xml.EndElement:
			if len(stack) == 0 || stack[len(stack)-1] != qn(tt.Name) {
				return "bad"
			}
			stack = stack[:len(stack)-1]
			if len(stack) == 0 {
				return "ok"
			}
		case xml.Comment, xml.Directive, xml.ProcInst:
			if len(stack) == 0 {
				return "noroot"
			}
		}
	}
}

func c15Bytes(c *Ctx, in []byte, api string) {
	if strings.Contains(api, "Reader") && !strings.Contains(api, "ByteReader") {
		for _, k := range []int{0, 1, 1, 2, 2} {
			hrKind = k
			c15BytesOne(c, in, api)
		}
		hrKind = 0
		return
	}
	c15BytesOne(c, in, api)
}

// c15JSONReaderExpect: a stream whose first byte after white space is '{' starts with a document; the reader
// forms succeed iff encoding/json decodes that first value, and return it. (Streams that start with anything
// else are documented to be scanned for the first '{'; no expectation is stated for them.)
func c15JSONReaderExpect(in []byte) (string, map[string]interface{}) {
	t := bytes.TrimLeft(in, " \t\r\n")
	if len(t) == 0 || t[0] != '{' {
		return "", nil
	}
	v, acc, _ := c06Ref(string(t), false)
	if !acc {
		return "bad", nil
	}
	return "ok", v
}

func c15BytesOne(c *Ctx, in []byte, api string) {
	cas := func() interface{} { return c15Case{Kind: "bytes", Input: in, Text: string(in), API: api, Cfg: c15Cfg} }
	c.S.Transitions++
	c.S.Validated++
	var m map[string]interface{}
	var err error
	encodeAfter := ""               // "map" | "seq"
	expect := ""                    // "", "ok", "bad", "noroot"
	var want map[string]interface{} // with "ok": the Map expected, when the reference defines one
	st, pan := protect(func() {
		switch api {
		case "NewMapXml":
			m, err = mxj.NewMapXml(in)
			expect, encodeAfter = map[bool]string{true: "ok", false: "bad"}[xmlFirstDocOK(in)], "map"
		case "NewMapXml(cast)":
			m, err = mxj.NewMapXml(in, true)
			expect, encodeAfter = map[bool]string{true: "ok", false: "bad"}[xmlFirstDocOK(in)], "map"
		case "NewMapXmlReader":
			m, err = mxj.NewMapXmlReader(newHR(in))
			expect = map[bool]string{true: "ok", false: "bad"}[xmlFirstDocOK(in)]
		case "NewMapXmlReader(ByteReader)":
			m, err = mxj.NewMapXmlReader(bytes.NewReader(in))
			expect = map[bool]string{true: "ok", false: "bad"}[xmlFirstDocOK(in)]
		case "NewMapXmlReaderRaw":
			m, _, err = mxj.NewMapXmlReaderRaw(newHR(in))
			expect = map[bool]string{true: "ok", false: "bad"}[xmlFirstDocOK(in)]
		case "NewMapXmlSeq":
			m, err = mxj.NewMapXmlSeq(in)
			expect, encodeAfter = xmlSeqFirstDoc(in), "seq"
		case "NewMapXmlSeq(cast)":
			m, err = mxj.NewMapXmlSeq(in, true)
			expect, encodeAfter = xmlSeqFirstDoc(in), "seq"
		case "NewMapXmlSeqReader":
			m, err = mxj.NewMapXmlSeqReader(newHR(in))
			expect = xmlSeqFirstDoc(in)
		case "NewMapXmlSeqReaderRaw":
			m, _, err = mxj.NewMapXmlSeqReaderRaw(newHR(in))
			expect = xmlSeqFirstDoc(in)
		case "NewMapFormattedXmlSeq":
			m, err = mxj.NewMapFormattedXmlSeq(in)
			encodeAfter = "seq"
		case "BeautifyXml":
			var o []byte
			o, err = mxj.BeautifyXml(in, "", " ")
			if err == nil {
				m = map[string]interface{}{"out": string(o)}
			}
		case "NewMapJson":
			m, err = mxj.NewMapJson(in)
			_, acc, amb := c06Ref(string(in), false)
			if !amb {
				expect = map[bool]string{true: "ok", false: "bad"}[acc]
			}
			encodeAfter = "map"
		case "NewMapJsonReader":
			m, err = mxj.NewMapJsonReader(newHR(in))
			expect, want = c15JSONReaderExpect(in)
		case "NewMapJsonReaderRaw":
			m, _, err = mxj.NewMapJsonReaderRaw(newHR(in))
			expect, want = c15JSONReaderExpect(in)
		case "HandleXmlReader":
			err = mxj.HandleXmlReader(newHR(in), func(mm mxj.Map) bool { return true }, func(e error) bool { return true })
			m = map[string]interface{}{}
		case "HandleXmlReaderRaw":
			err = mxj.HandleXmlReaderRaw(newHR(in), func(mm mxj.Map, r []byte) bool { return true }, func(e error, r []byte) bool { return true })
			m = map[string]interface{}{}
		case "HandleJsonReader":
			err = mxj.HandleJsonReader(newHR(in), func(mm mxj.Map) bool { return true }, func(e error) bool { return true })
			m = map[string]interface{}{}
		case "HandleJsonReaderRaw":
			err = mxj.HandleJsonReaderRaw(newHR(in), func(mm mxj.Map, r []byte) bool { return true }, func(e error, r []byte) bool { return true })
			m = map[string]interface{}{}
		case "NewMapGob":
			m, err = mxj.NewMapGob(in)
		case "x2j-wrapper.Unmarshal":
			mm := map[string]interface{}{}
			err = x2jw.Unmarshal(in, &mm)
			m = mm
		case "x2j-wrapper.DocToMap":
			m, err = x2jw.DocToMap(string(in))
			expect = map[bool]string{true: "ok", false: "bad"}[xmlFirstDocOK(in)]
		}
	})
	shape := "corrupted-input"
	if pan {
		c.Violate(api, "panic", shape, cas, nil, fmt.Sprintf("input=%q\n%s", in, st))
		return
	}
	c.Outcome(fmt.Sprintf("%s|%v|%s", api, err != nil, dump(m)))
	isNoRoot := err == mxj.NoRoot
	switch expect {
	case "ok":
		if err != nil {
			c.Violate(api, "rejects-what-the-tokenizer-accepts", shape, cas, nil, fmt.Sprintf("input=%q err=%v", in, err))
			return
		}
		if want != nil && !deepEq(m, want) {
			c.Violate(api, "value-differs-from-the-tokenizer", shape, cas, nil, fmt.Sprintf("input=%q result=%s, encoding/json reads the first document as %s", in, dump(m), dump(want)))
			return
		}
	case "bad":
		if err == nil {
			c.Violate(api, "accepts-what-the-tokenizer-rejects", shape, cas, nil, fmt.Sprintf("input=%q result=%s", in, dump(m)))
			return
		}
	case "noroot":
		if !isNoRoot {
			c.Violate(api, "no-root-result", shape, cas, nil, fmt.Sprintf("input=%q: expected the documented no-root result, got %s, %v", in, dump(m), err))
			return
		}
	}
	if err != nil && !isNoRoot && m != nil && len(m) > 0 && !strings.HasPrefix(api, "Handle") {
		c.Violate(api, "partial-map-with-error", shape, cas, nil, fmt.Sprintf("input=%q: error %v together with %s", in, err, dump(m)))
		return
	}
	if err == nil && m == nil {
		c.Violate(api, "neither-map-nor-error", shape, cas, nil, fmt.Sprintf("input=%q", in))
		return
	}
	// (c) every Map a decoder produced can be encoded without a panic
	if err == nil && encodeAfter != "" {
		st, pan := protect(func() {
			if encodeAfter == "map" {
				mv := mxj.Map(m)
				mv.Xml()
				mv.XmlIndent("", " ")
				mv.Json()
				mv.StringIndent()
				mv.Gob()
			} else {
				ms := mxj.MapSeq(m)
				ms.Xml()
				ms.XmlIndent("", " ")
			}
		})
		c.S.Transitions += 3
		if pan {
			c.Violate(api, "encoder-panics-on-decoded-map", shape, cas, nil, fmt.Sprintf("input=%q decoded=%s\n%s", in, dump(m), st))
		}
	}
}

func c15Args(c *Ctx, m map[string]interface{}, api string, args []string) {
	cas := func() interface{} {
		return c15Case{Kind: "args", API: api, Map: json.RawMessage(jsonOf(m)), MapStr: dump(m), Args: args}
	}
	c.S.Transitions++
	c.S.Validated++
	mv := mxj.Map(m)
	a := func(i int) string {
		if i < len(args) {
			return args[i]
		}
		return ""
	}
	st, pan := protect(func() {
		switch api {
		case "ValuesForPath":
			mv.ValuesForPath(a(0), args[1:]...)
		case "ValueForPath":
			mv.ValueForPath(a(0))
			mv.ValueForPathString(a(0))
			mv.ValueOrEmptyForPathString(a(0))
		case "Exists":
			mv.Exists(a(0), args[1:]...)
		case "ValuesForKey":
			mv.ValuesForKey(a(0), args[1:]...)
			mv.ValueForKey(a(0), args[1:]...)
		case "PathsForKey":
			mv.PathsForKey(a(0))
			mv.PathForKeyShortest(a(0))
		case "LeafNodes":
			mv.LeafNodes()
			mv.LeafPaths(true)
			mv.LeafValues()
		case "UpdateValuesForPath":
			mv.UpdateValuesForPath(a(0), a(1), args[2:]...)
		case "SetValueForPath":
			mv.SetValueForPath("v", a(0))
		case "Remove":
			mv.Remove(a(0))
		case "RenameKey":
			mv.RenameKey(a(0), a(1))
		case "NewMap":
			mv.NewMap(args...)
		case "Elements":
			mv.Elements(a(0))
			mv.Attributes(a(0))
			mv.Root()
		case "x2j-wrapper.PathsForKey":
			x2jw.PathsForKey(m, a(0))
			x2jw.PathForKeyShortest(m, a(0))
		case "x2j-wrapper.ValuesFromKeyPath":
			x2jw.ValuesFromKeyPath(m, a(0))
			x2jw.ValuesFromKeyPath(m, a(0), true)
		case "x2j-wrapper.ValuesAtKeyPath":
			x2jw.ValuesAtKeyPath(m, a(0))
			x2jw.ValuesAtKeyPath(m, a(0), true)
		case "x2j-wrapper.ValuesForKey":
			x2jw.ValuesForKey(m, a(0))
		case "x2j-wrapper.MapValue":
			x2jw.MapValue(m, a(0), nil)
			x2jw.MapValue(m, a(0), nil, true)
			x2jw.MapValue(m, a(0), map[string]interface{}{"x": "1"}, true)
			x2jw.MapValue(m, a(0), map[string]interface{}{"x": 1.0}, true)
			x2jw.MapValue(m, a(0), map[string]interface{}{"": "1"})            // attribute names are keys too: the empty one,
			x2jw.MapValue(m, a(0), map[string]interface{}{"-": "1", "k": "v"}) // the bare prefix, a name without prefix
		}
	})
	if pan {
		c.Violate(api, "panic", "arguments", cas, nil, fmt.Sprintf("map=%s args=%q\n%s", dump(m), args, st))
	}
	c.Outcome(api + "|" + strings.Join(args, "|"))
}

func c15Seeds() (xmls, jsons [][]byte, gob []byte) {
	for _, s := range []string{
		`<a/>`, `<a>x</a>`, `<a b="1"><c/>t</a>`, `<r><a>1</a><b x='2'>t</b><a/></r>`,
		`<?xml version="1.0"?><!-- c --><r><!--in--><a>1</a><?pi x?><b/><![CDATA[z]]></r>`,
		`<n:a xmlns:n="u"><n:b/></n:a>`, `<r>&lt;&amp;&#x41;</r>`, "\xef\xbb\xbf<a/>", `<a/><b/>`, `<!DOCTYPE r><r/>`,
		// mixed content whose text reads as a number / a boolean (cast forms)
		`<r><a>12<b/></a><c x="1">true<d/>7</c></r>`,
	} {
		xmls = append(xmls, []byte(s))
	}
	for _, s := range []string{
		`{"a":1}`, `{"a":{"b":[1,{"c":"]"}]},"d":"x\\"}`, `[1,{"a":null}]`, `{"a":"}{\""}`, ` {"a":true} {"b":2}`, `{"é":"é"}`,
		// syntactically valid documents the JSON decoder rejects after it has started to fill the result
		`{"a":1,"b":1e999,"c":2}`, `{"a":[1,{"b":-1e999}],"c":"x"}`, `{"a":[]}`, `[]`,
	} {
		jsons = append(jsons, []byte(s))
	}
	g, err := mxj.Map{"a": 1.5, "b": []interface{}{"x", true}, "c": map[string]interface{}{"d": "y"}}.Gob()
	if err != nil {
		panic(err)
	}
	return xmls, jsons, g
}

var c15Alphabet = []byte{'<', '>', '/', '&', '"', '=', '{', '}', '[', ']', '\\', 'a', ' ', 0xFF, '\v', '\f', '-', '+', '.', 'e'}

// mutate enumerates every truncation, deletion, substitution and insertion (deviation bound 1).
func mutate1(seed []byte, f func(b []byte)) {
	f(seed)
	for i := 0; i < len(seed); i++ {
		f(append([]byte(nil), seed[:i]...)) // truncation
		d := append([]byte(nil), seed[:i]...)
		f(append(d, seed[i+1:]...)) // deletion
		for _, x := range c15Alphabet {
			s := append([]byte(nil), seed...)
			if s[i] != x {
				s[i] = x
				f(s)
			}
			ins := append([]byte(nil), seed[:i]...)
			ins = append(ins, x)
			f(append(ins, seed[i:]...))
		}
	}
	for _, x := range c15Alphabet {
		f(append(append([]byte(nil), seed...), x))
	}
}

func c15Run(c *Ctx) {
	mustBeDefault(c)
	c.S.Rule = "part (a): seed documents (11 XML incl. mixed content with number-like text, prolog/comments/PIs/CDATA/namespaces/BOM/two roots/DOCTYPE, 8 JSON incl. braces and quotes in strings, a trailing escaped backslash and numbers outside the float64 range, 1 gob) x every truncation, single-byte deletion, substitution and insertion from {< > / & \" = { } [ ] \\ a space 0xFF VT FF - + . e} at every offset (deviation bound 1; pairs of deviations on the seeds of up to 40 bytes in thorough) x every decoder form (byte, reader - as pointer, function-typed and by-value struct readers, each non-pointer kind twice in a row -, ByteReader, raw, bulk handlers, formatted, BeautifyXml, gob, x2j-wrapper Unmarshal/DocToMap), the XML deviations of bound 1 again under 4 non-default decoder option settings (simple-values-as-map; keep-spaces; both with tag sequence numbers; empty attribute prefix + '_' key prefix + lower/snake-case keys + decoder-side escaping + int and NaN/Inf casting), plus readers that stall with (0,nil) for ever after every prefix length; oracle: no panic, termination (reader horizon), fails iff the standard tokenizer rejects the first document (Token for the Map decoders, RawToken + name matching for the sequence decoders, encoding/json for JSON), no partial Map with an error, documented no-root result, and the decoded Map encodes without panic. part (b): Maps with <= 4 nodes over keys {a, k, \"\"} and Maps with <= 3 nodes over keys that look like path syntax {a, *, a[0], a.k} x malformed and well-formed path / key / sub-key / new-value / key-pair strings x every query and update method and the x2j-wrapper walkers; oracle: no panic, and termination (a budget of 400000 function entries / loop iterations per call, enforced by the instrumentation, turns unbounded recursion into a reported violation). non-trivial = distinct (api, outcome) pairs are counted in distinct_outcomes; every case counts."
	c.S.Assumptions = []string{"reference acceptance = encoding/xml Token()/RawToken()+nesting, encoding/json Decoder"}
	xmls, jsons, gob := c15Seeds()
	xmlAPIs := []string{"NewMapXml", "NewMapXml(cast)", "NewMapXmlReader", "NewMapXmlReader(ByteReader)", "NewMapXmlReaderRaw", "NewMapXmlSeq", "NewMapXmlSeq(cast)",
		"NewMapXmlSeqReader", "NewMapXmlSeqReaderRaw", "NewMapFormattedXmlSeq", "BeautifyXml", "HandleXmlReader", "HandleXmlReaderRaw", "x2j-wrapper.Unmarshal", "x2j-wrapper.DocToMap"}
	jsonAPIs := []string{"NewMapJson", "NewMapJsonReader", "NewMapJsonReaderRaw", "HandleJsonReader", "HandleJsonReaderRaw"}
	runBytes := func(seed []byte, apis []string, two bool) {
		mutate1(seed, func(b []byte) {
			for _, api := range apis {
				if !c.Mine() {
					continue
				}
				c.S.States++
				c.S.Evaluations++
				c.S.Schedules++
				c.S.Nontrivial++
				c15Bytes(c, b, api)
				if c.sampleN < 3 {
					c.Sample(map[string]interface{}{"input": string(b), "api": api})
				}
				c.sampleN++
			}
			if two && len(seed) <= 40 {
				mutate1(b, func(b2 []byte) {
					for _, api := range apis {
						if !c.Mine() {
							continue
						}
						c.S.States++
						c.S.Evaluations++
						c.S.Schedules++
						c15Bytes(c, b2, api)
					}
				})
			}
		})
	}
	for _, s := range xmls {
		runBytes(s, xmlAPIs, c.Thorough)
		runBytes(s, jsonAPIs[:1], false) // wrong-format input
	}
	// the same deviations under non-default decoder options: totality and the acceptance rule are stated for
	// every decoder, and no option is documented to change what a decoder accepts
	optCfgs := []Cfg{
		{AttrPrefix: "-", KeyPrefix: "#", SimpleMap: true},
		{AttrPrefix: "-", KeyPrefix: "#", KeepSpaces: true},
		{AttrPrefix: "-", KeyPrefix: "#", SimpleMap: true, KeepSpaces: true, SeqNum: true},
		{AttrPrefix: "", KeyPrefix: "_", Lower: true, Snake: true, EscDec: true, CastInt: true, NanInf: true},
	}
	optAPIs := []string{"NewMapXml", "NewMapXml(cast)", "NewMapXmlReader", "NewMapXmlReaderRaw", "NewMapXmlSeq", "NewMapXmlSeq(cast)", "NewMapXmlSeqReader", "HandleXmlReader", "x2j-wrapper.DocToMap"}
	for i := range optCfgs {
		applyCfg(optCfgs[i])
		c15Cfg = &optCfgs[i]
		for _, s := range xmls {
			runBytes(s, optAPIs, false)
		}
		c15Cfg = nil
		resetOptions()
	}
	for _, s := range jsons {
		runBytes(s, jsonAPIs, c.Thorough)
		runBytes(s, []string{"NewMapXml", "NewMapXmlSeq"}, false)
	}
	runBytes(gob, []string{"NewMapGob"}, false)
	// stalling readers: every prefix length of a few seeds
	for _, s := range append(append([][]byte{}, xmls[:4]...), jsons[:2]...) {
		apis := []string{"NewMapXmlReader", "NewMapXmlReaderRaw", "NewMapXmlSeqReader", "NewMapXmlSeqReaderRaw", "HandleXmlReaderRaw"}
		if s[0] == '{' {
			apis = []string{"NewMapJsonReader", "NewMapJsonReaderRaw", "HandleJsonReaderRaw"}
		}
		for n := 0; n <= len(s); n++ {
			for _, api := range apis {
				if !c.Mine() {
					continue
				}
				c.S.States++
				c.S.Evaluations++
				c.S.Schedules++
				c15Stall(c, s, n, api)
			}
		}
	}
	c.S.BoundCompleted = 1
	if c.Thorough {
		c.S.BoundCompleted = 2
	}

	// part (b)
	pieces := []string{"a", "k", "", "*", "a[0]", "a[-1]", "a[99999999999]", "a[9223372036854775807]", "a[9223372036854775806]", "a[2147483647]", "a[2147483648]", "a[4294967296]", "a[18446744073709551615]", "a[", "a[]", "a[x]", "[0]", "a]b", "a][", "a[0]x", "*[0]", "k[1]", " ", "a[0][1]"}
	var paths []string
	seqs(pieces, 2, func(s []string) { paths = append(paths, strings.Join(s, ".")) })
	paths = append(paths, "a.k.a", "a..k", "...", "a.k[0].a[1]", "*.*.*", "a[0].k.a[-1]", ".a.", "a.k.")
	subkeys := []string{":x", "!", "a:b:c:d", "a", "a:", ":", "!:x", "a:1:bool", "a:x:bool", "a:1:zzz", "!a:*", "a:*", "", "!", "!!a:b", "a:x:num"}
	newVals := []string{"k:v", "k", ":", "k:1:num", "k:x:num", "k:v:zzz", ":v", "k:v:bool:x", "", "k:true:bool", "*:v", "a[0]:v"}
	pairs := []string{"a:", ":a", "a:b:c", "a:b*", "a:b[0]", "", "a[:x", "a[-1]:x", "*:", "a:x.", "a.:x", "a", "*", "a:.", ".:a", "a:a.a.a"}
	g := newGen(GenP{Keys: []string{"a", "k", ""}, MaxList: 2, MaxKeys: 2, EmptyList: true, EmptyMap: true, ListInList: true, Leaves: []interface{}{"s", nullLeaf{}, 1.5}})
	nb := 4
	if c.Thorough {
		nb = 5
	}
	call := func(t *T, api string, args ...string) {
		if !c.Mine() {
			return
		}
		c.S.States++
		c.S.Evaluations++
		c.S.Schedules++
		c15Args(c, inst(t, nil).(map[string]interface{}), api, args)
	}
	partB := func(t *T) {
		for _, p := range paths {
			call(t, "ValuesForPath", p)
			call(t, "ValueForPath", p)
			call(t, "SetValueForPath", p)
			call(t, "Remove", p)
			call(t, "Elements", p)
			call(t, "x2j-wrapper.ValuesFromKeyPath", p)
			call(t, "x2j-wrapper.ValuesAtKeyPath", p)
			call(t, "x2j-wrapper.MapValue", p)
		}
		for _, k := range pieces {
			call(t, "ValuesForKey", k)
			call(t, "PathsForKey", k)
			call(t, "x2j-wrapper.PathsForKey", k)
			call(t, "x2j-wrapper.ValuesForKey", k)
			for _, nm := range []string{"a", "", "k"} {
				call(t, "RenameKey", k, nm)
				call(t, "RenameKey", "a."+k, nm)
			}
		}
		call(t, "LeafNodes")
		for _, sk := range subkeys {
			for _, p := range []string{"a", "*", "a.k", "a[0]", "k"} {
				call(t, "ValuesForPath", p, sk)
				call(t, "Exists", p, sk, "a:*")
				call(t, "ValuesForKey", p, sk)
				call(t, "UpdateValuesForPath", "k:v", p, sk)
			}
		}
		for _, nv := range newVals {
			for _, p := range []string{"a", "*", "a.k", "k", "", "a."} {
				call(t, "UpdateValuesForPath", nv, p)
			}
		}
		for _, p1 := range pairs {
			call(t, "NewMap", p1)
			call(t, "NewMap", "a:x", p1)
		}
	}
	g.rootMaps(nb, partB)
	// Maps whose keys look like path syntax: a literal "*", a key with an index suffix, a key with a dot
	g3 := newGen(GenP{Keys: []string{"a", "*", "a[0]", "a.k"}, MaxList: 2, MaxKeys: 2, EmptyList: false, EmptyMap: true, ListInList: false, Leaves: []interface{}{"s"}})
	g3.rootMaps(nb-1, func(t *T) {
		special := false
		var walk func(t *T)
		walk = func(t *T) {
			for _, k := range t.Keys {
				if k != "a" {
					special = true
				}
			}
			for _, kd := range t.Kids {
				walk(kd)
			}
		}
		walk(t)
		if special {
			partB(t)
		}
	})
	rt.OrderPolicy = rt.PolicySorted
	resetOptions()
}
