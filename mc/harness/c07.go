package main

import (
	"encoding/json"
	"fmt"
	"strconv"
	"strings"

	mxj "github.com/clbanning/mxj/v2"
	rt "github.com/clbanning/mxj/v2/zzverifrt"
)

// C07 — ValuesForPath returns exactly the values a dot/wildcard/indexed path denotes.

type c07Case struct {
	Map  json.RawMessage `json:"map"`
	Path string          `json:"path"`
	Pol  int             `json:"order_policy"`
}

func init() {
	register(&Property{ID: "C07", Run: c07Run, Replay: func(c *Ctx, cas json.RawMessage, ch []int) {
		var k c07Case
		json.Unmarshal(cas, &k)
		m := fromJSON(string(k.Map)).(map[string]interface{})
		if len(ch) > 0 {
			rt.OrderPolicy = rt.PolicyChoose
			runWith(ch, func() { c07Check(c, m, k.Path, rt.PolicyChoose, ch) })
			rt.OrderPolicy = rt.PolicySorted
			return
		}
		rt.OrderPolicy = k.Pol
		c07Check(c, m, k.Path, k.Pol, nil)
		rt.OrderPolicy = rt.PolicySorted
	}})
}

func c07Shape(m map[string]interface{}, steps []pstep) string {
	ni, wild := 0, false
	for _, s := range steps {
		if s.indexed {
			ni++
		}
		if s.name == "*" {
			wild = true
		}
	}
	sh := fmt.Sprintf("indexed=%d", ni)
	if ni >= 2 {
		sh = "indexed>=2"
	}
	if wild {
		sh += ",wildcard"
	}
	if hasListInList(m) {
		sh += ",list-in-list"
	}
	return sh
}

// c07Check runs one (Map, path) case under the current order policy.
func c07Check(c *Ctx, m map[string]interface{}, path string, pol int, choices []int) (nontrivial bool) {
	steps := parseSteps(path)
	wild := false
	indexed := false
	for _, s := range steps {
		if s.name == "*" {
			wild = true
		}
		if s.indexed {
			indexed = true
		}
	}
	lil := hasListInList(m)
	if indexed && lil {
		return false // outside the quantifier
	}
	exp := refPath(m, steps, false)
	expD := dumpSeq(exp)
	var expD2 []string
	if lil {
		expD2 = dumpSeq(refPath(m, steps, true))
	}
	mv := mxj.Map(m)
	cas := func() interface{} { return c07Case{Map: json.RawMessage(jsonOf(m)), Path: path, Pol: pol} }
	viol := func(api, clause, detail string) {
		c.Violate(api, clause, c07Shape(m, steps), cas(), choices, detail)
	}

	var got []interface{}
	var err error
	st, pan := protect(func() { got, err = mv.ValuesForPath(path) })
	c.S.Transitions++
	if pan {
		viol("Map.ValuesForPath", "panic", st)
		return false
	}
	if err != nil {
		viol("Map.ValuesForPath", "error-on-wellformed-path", err.Error())
		return false
	}
	c.RetainVal("Map.ValuesForPath", got, cas)
	if !c.NoAlias("Map.ValuesForPath", got, m, c07Shape(m, steps), cas, choices) {
		return len(exp) > 0
	}
	gotD := dumpSeq(got)
	match := func(e []string) bool {
		if wild {
			return eqStrings(sortedCopy(gotD), sortedCopy(e))
		}
		return eqStrings(gotD, e)
	}
	ok := match(expD) || (lil && match(expD2))
	c.Outcome(strings.Join(gotD, "|"))
	if !ok {
		viol("Map.ValuesForPath", "values", fmt.Sprintf("map=%s path=%q\n expected=%v\n   actual=%v", jsonOf(m), path, expD, gotD))
		return len(exp) > 0
	}
	// ValueForPath / Exists / ValueForPathString are consistent with it
	var one interface{}
	var ex bool
	var str string
	var err1, err2, err3 error
	st, pan = protect(func() {
		one, err1 = mv.ValueForPath(path)
		ex, err2 = mv.Exists(path)
		str, err3 = mv.ValueForPathString(path)
	})
	c.S.Transitions += 3
	if pan {
		viol("Map.ValueForPath", "panic", st)
		return len(exp) > 0
	}
	if len(got) == 0 {
		if err1 == nil || ex || err2 != nil || err3 == nil {
			viol("Map.ValueForPath", "consistency-empty", fmt.Sprintf("map=%s path=%q ValueForPath err=%v Exists=%v,%v ValueForPathString err=%v", jsonOf(m), path, err1, ex, err2, err3))
		}
	} else {
		good := err1 == nil && err2 == nil && err3 == nil && ex
		if good {
			d := dump(one)
			if wild {
				found := false
				for _, g := range gotD {
					if g == d {
						found = true
					}
				}
				good = found
				// string form must be the %v of some result
				if good {
					found = false
					for _, g := range got {
						if fmt.Sprintf("%v", g) == str {
							found = true
						}
					}
					good = found
				}
			} else {
				good = d == gotD[0] && str == fmt.Sprintf("%v", got[0])
			}
		}
		if !good {
			viol("Map.ValueForPath", "consistency", fmt.Sprintf("map=%s path=%q values=%v ValueForPath=%s,%v Exists=%v,%v String=%q,%v", jsonOf(m), path, gotD, dump(one), err1, ex, err2, str, err3))
		}
	}
	return len(exp) > 0
}

func c07Run(c *Ctx) {
	mustBeDefault(c)
	c.S.Rule = "cases = (Map, path): Maps are all map templates with <= N nodes over keys {a,ab,k} (one key is a prefix of another) (lists <= 3 members, maps <= 3 keys, empty containers, list-in-list for non-indexed paths) with unique leaves, plus a wide family (maps and lists of 16, 31, 32, 33, 40, 63, 64 and 65 members, each list member holding three cells with a two-member list, incl. paths with two indexed steps separated by a step that yields several parents) a family over multi-byte keys (one a byte-prefix of another), a family of Maps that hold a key literally named '*' (a '*' step still selects every entry) and a deep family (four levels a.k.a.k, each a map / one-member list / two-member list of maps, 81 shapes plus heterogeneous variants, every four-step path over {key,key[0],key[1],*}); paths are step sequences of length <= L over {a,ab,k,z,*,a[0..2],ab[0..2],k[0..2]} enumerated per Map by depth-first extension (a prefix denoting nothing is extended by one more step, then abandoned); each case is run under ascending and descending map-iteration order and, for wildcard paths, under every single deviation from the sorted order (E-choice bound 1; bound 2 in thorough on the smaller Maps). Results are retained (last 16) and re-checked slot by slot after every later call. non-trivial = the reference says the path denotes at least one value."
	c.S.Assumptions = []string{"reference path semantics written from the documentation (harness/ref_path.go)", "list directly inside a list under a plain key: one-level and recursive readings both accepted"}
	maxNodes, maxLen, echoiceNodes := 5, 3, 5
	if c.Thorough {
		maxNodes, maxLen, echoiceNodes = 6, 4, 5
	}
	g := newGen(GenP{Keys: []string{"a", "ab", "k"}, MaxList: 3, MaxKeys: 3, EmptyList: true, EmptyMap: true, ListInList: true})
	var alpha []string
	for _, k := range []string{"a", "ab", "k"} {
		alpha = append(alpha, k)
	}
	alpha = append(alpha, "z", "*")
	for _, k := range []string{"a", "ab", "k"} {
		for i := 0; i < 3; i++ {
			alpha = append(alpha, fmt.Sprintf("%s[%d]", k, i))
		}
	}
	// paths are enumerated per Map by depth-first extension: a prefix that denotes nothing is
	// extended by one more step (every step) and then abandoned, because longer extensions of a
	// dead prefix add no new behaviour of the walker; live prefixes are extended up to maxLen.
	var steps [][]pstep
	for _, a := range alpha {
		steps = append(steps, parseSteps(a))
	}
	runCase := func(m map[string]interface{}, nodes int, path string) {
		c.S.States++
		wild := strings.Contains(path, "*")
		rt.OrderPolicy = rt.PolicySorted
		nt := c07Check(c, m, path, rt.PolicySorted, nil)
		c.S.Evaluations++
		c.S.Validated++
		c.S.Schedules++
		if nt {
			c.S.Nontrivial++
			c.Sample(map[string]interface{}{"map": json.RawMessage(jsonOf(m)), "path": path})
		}
		if wild {
			rt.OrderPolicy = rt.PolicyReverse
			c07Check(c, m, path, rt.PolicyReverse, nil)
			c.S.Validated++
			c.S.Schedules++
			if nt && nodes <= echoiceNodes {
				bound := 1
				if c.Thorough && nodes <= 5 {
					bound = 2
				}
				rt.OrderPolicy = rt.PolicyChoose
				e := &Explorer{Bound: bound, MaxExecs: 5000,
					Run:   func() { c07Check(c, m, path, rt.PolicyChoose, curExec.prefix) },
					Check: func(x *Exec) bool { return true }}
				e.Explore()
				c.S.Schedules += e.Execs
				c.S.Validated += e.Execs
				if e.CapHit {
					c.Cap("E-choice executions per case capped at 5000")
					c.S.Exhaustive = false
				}
				if e.Diverged != "" {
					c.Broken("C07: %s", e.Diverged)
				}
				if bound > c.S.BoundCompleted {
					c.S.BoundCompleted = bound
				}
			}
			rt.OrderPolicy = rt.PolicySorted
		}
	}

	g.rootMaps(maxNodes, func(t *T) {
		nodes := countNodes(t)
		if c.Shard == 0 {
			c.Count("maps", 1)
		}
		tm := inst(t, strLeaves()).(map[string]interface{})
		lil := hasListInList(tm)
		var rec func(prefix []string, ps []pstep, deadDepth int)
		rec = func(prefix []string, ps []pstep, deadDepth int) {
			for i, a := range alpha {
				np := append(prefix, a)
				nps := append(ps, steps[i]...)
				if lil && steps[i][0].indexed {
					continue
				}
				path := strings.Join(np, ".")
				if c.Mine() {
					m := inst(t, mixLeaves()).(map[string]interface{})
					runCase(m, nodes, path)
				}
				if len(np) >= maxLen {
					continue
				}
				alive := len(refPath(tm, nps, false)) > 0 || (lil && len(refPath(tm, nps, true)) > 0)
				if alive {
					rec(np, nps, 0)
				} else if deadDepth == 0 {
					rec(np, nps, 1)
				}
			}
		}
		rec(nil, nil, 0)
	})

	// wide family: results beyond the internal initial capacity of 32
	wide := func(width int) map[string]interface{} {
		leaf := strLeaves()
		wm := map[string]interface{}{}
		for i := 0; i < width; i++ {
			wm[fmt.Sprintf("w%02d", i)] = leaf()
		}
		wl := make([]interface{}, width)
		for i := range wl {
			cells := make([]interface{}, 3)
			for j := range cells {
				cells[j] = map[string]interface{}{"v": []interface{}{leaf(), leaf()}}
			}
			wl[i] = map[string]interface{}{"x": leaf(), "y": []interface{}{leaf(), leaf()}, "c": cells}
		}
		wl2 := make([]interface{}, width)
		for i := range wl2 {
			wl2[i] = leaf()
		}
		return map[string]interface{}{"m": wm, "l": wl, "s": wl2, "d": map[string]interface{}{"m": deepCopy(wm), "l": deepCopy(wl)}}
	}
	// widths around the internal initial result capacity (32) and its first doubling (64)
	for _, width := range []int{16, 31, 32, 33, 40, 63, 64, 65} {
		last := strconv.Itoa(width - 1)
		for _, p := range []string{"m", "m.*", "*", "l", "l.x", "l.y", "l.*", "s", "s.*", "*.*", "d.m.*", "d.l.x", "d.l.y", "d.*.*", "*.l.x", "l[" + last + "].x", "l[" + last + "].y[1]", "l[" + strconv.Itoa(width) + "]", "s[" + last + "]", "s[" + strconv.Itoa(width) + "]", "d.l[" + last + "].x", "d.l.y[1]", "l.y[0]", "m.w" + fmt.Sprintf("%02d", width-1), "*.*.*", "l.z", "d.l[0].y[1]",
			// an indexed step over the wide list, then a plain or wildcard step that yields several parents, then a second indexed step
			"l[2].c.v[1]", "l[0].c.v[0]", "l[" + last + "].c.v[1]", "d.l[1].c.v[1]", "l[2].*.v[1]", "l[1].c[2].v[0]", "l[1].c.v", "l.c[1].v[1]"} {
			if !c.Mine() {
				continue
			}
			runCase(wide(width), 999, p)
		}
	}

	// Maps that hold a key literally named "*" beside other keys: a '*' step still selects every entry
	gstar := newGen(GenP{Keys: []string{"a", "*", "k"}, MaxList: 2, MaxKeys: 3, EmptyList: false, EmptyMap: true, ListInList: false})
	var starPaths []string
	seqs([]string{"a", "k", "*", "a[0]", "a[1]"}, 3, func(s []string) { starPaths = append(starPaths, strings.Join(s, ".")) })
	gstar.rootMaps(maxNodes, func(t *T) {
		if !strings.Contains(t.String(), "*") {
			return
		}
		for _, p := range starPaths {
			if !c.Mine() {
				continue
			}
			runCase(inst(t, mixLeaves()).(map[string]interface{}), 999, p)
		}
	})
	// multi-byte keys, one a byte-prefix of another (path strings are cut at byte offsets)
	gmb := newGen(GenP{Keys: []string{"\u00e9", "\u00e9a", "\u4e2d"}, MaxList: 2, MaxKeys: 3, EmptyList: false, EmptyMap: true, ListInList: false})
	var mbPaths []string
	seqs([]string{"\u00e9", "\u00e9a", "\u4e2d", "*", "\u00e9[0]", "\u00e9a[1]", "\u4e2d[0]"}, 3, func(s []string) { mbPaths = append(mbPaths, strings.Join(s, ".")) })
	gmb.rootMaps(4, func(t *T) {
		for _, p := range mbPaths {
			if !c.Mine() {
				continue
			}
			runCase(inst(t, mixLeaves()).(map[string]interface{}), 999, p)
		}
	})
	// deep family: four levels a.k.a.k, each level a map, a one-member list or a two-member list of maps
	// (uniform per level, plus a variant whose second members carry a one-member list below), a sibling key
	// "ab" at every level; every path of four steps over {key, key[0], key[1], *} - several plain-to-indexed
	// transitions with several parents at each
	lvKeys := []string{"a", "k", "a", "k"}
	var wrap func(lv int, kinds []int, hetero bool, leaf func() interface{}, second bool) interface{}
	wrap = func(lv int, kinds []int, hetero bool, leaf func() interface{}, second bool) interface{} {
		if lv == 4 {
			return leaf()
		}
		kind := kinds[lv]
		if hetero && second && kind == 2 {
			kind = 1
		}
		below := func(sec bool) interface{} {
			if lv == 3 {
				return leaf()
			}
			return map[string]interface{}{lvKeys[lv+1]: wrap(lv+1, kinds, hetero, leaf, sec), "ab": leaf()}
		}
		switch kind {
		case 0:
			return below(second)
		case 1:
			return []interface{}{below(second)}
		default:
			return []interface{}{below(false), below(true)}
		}
	}
	var deepPaths []string
	for _, s0 := range []string{"a", "a[0]", "a[1]", "*"} {
		for _, s1 := range []string{"k", "k[0]", "k[1]", "*"} {
			for _, s2 := range []string{"a", "a[0]", "a[1]", "*"} {
				for _, s3 := range []string{"k", "k[0]", "k[1]", "*"} {
					deepPaths = append(deepPaths, s0+"."+s1+"."+s2+"."+s3)
				}
			}
		}
	}
	for shp := 0; shp < 81; shp++ {
		kinds := []int{shp % 3, shp / 3 % 3, shp / 9 % 3, shp / 27 % 3}
		for _, hetero := range []bool{false, true} {
			if hetero && kinds[0] != 2 && kinds[1] != 2 && kinds[2] != 2 {
				continue
			}
			for _, p := range deepPaths {
				if !c.Mine() {
					continue
				}
				m := map[string]interface{}{"a": wrap(0, kinds, hetero, strLeaves(), false), "ab": "x"}
				runCase(m, 999, p)
			}
		}
	}
}

func countNodes(t *T) int {
	n := 1
	for _, k := range t.Kids {
		n += countNodes(k)
	}
	return n
}
