package main

import (
	"encoding/json"
	"fmt"
	"strconv"
	"strings"

	mxj "github.com/clbanning/mxj/v2"
	rt "github.com/clbanning/mxj/v2/zzverifrt"
)

// C12 — NewMap builds exactly the requested projection and leaves the source unchanged.

type c12Case struct {
	Map   json.RawMessage `json:"map"`
	Pairs []string        `json:"pairs"`
	Pol   int             `json:"order_policy"`
}

func init() {
	register(&Property{ID: "C12", Run: c12Run, Replay: func(c *Ctx, cas json.RawMessage, ch []int) {
		var k c12Case
		json.Unmarshal(cas, &k)
		m := retype(fromJSON(string(k.Map))).(map[string]interface{})
		rt.OrderPolicy = k.Pol
		c12Check(c, m, k.Pairs)
		rt.OrderPolicy = rt.PolicySorted
	}})
}

// c12Malformed: is the pair malformed per the documentation?
func c12Malformed(p string) bool {
	if p == "" {
		return false // empty arguments are skipped
	}
	parts := strings.Split(p, ":")
	if len(parts) > 2 {
		return true
	}
	old, nw := parts[0], parts[0]
	if len(parts) == 2 {
		nw = parts[1]
	}
	if old == "" || nw == "" {
		return true
	}
	return strings.ContainsAny(nw, "*[")
}

func c12Check(c *Ctx, m map[string]interface{}, pairs []string) (nontrivial bool) {
	before := deepCopy(m).(map[string]interface{})
	pristine := mxj.Map(deepCopy(m).(map[string]interface{}))
	mv := mxj.Map(m)
	cas := func() interface{} {
		return c12Case{Map: json.RawMessage(jsonOf(untype(before))), Pairs: pairs, Pol: rt.OrderPolicy}
	}
	// classification
	anyMalformed := false
	var news []string
	for _, p := range pairs {
		if c12Malformed(p) {
			anyMalformed = true
		}
		if p == "" {
			continue
		}
		parts := strings.Split(p, ":")
		nw := parts[len(parts)-1]
		if len(parts) <= 2 {
			news = append(news, strings.TrimSuffix(nw, "."))
		}
	}
	overlap := false
	for i := range news {
		for j := range news {
			if i != j && (news[i] == news[j] || strings.HasPrefix(news[j], news[i]+".")) {
				overlap = true
			}
		}
	}
	shape := fmt.Sprintf("pairs=%d", len(pairs))
	if overlap {
		shape += ",overlapping-new-paths"
	}
	if anyMalformed {
		shape += ",malformed"
	}
	rt.Unfreeze()
	rt.Freeze(m)
	var res mxj.Map
	var err error
	st, pan := protect(func() { res, err = mv.NewMap(pairs...) })
	writes := append([]string(nil), rt.FrozenWrites...)
	rt.Unfreeze()
	c.S.Transitions++
	detail := func(what string) string {
		return fmt.Sprintf("%s\n pairs=%q err=%v\n receiver before=%s\n receiver after =%s\n result=%s", what, pairs, err, jsonOf(before), jsonOf(map[string]interface{}(mv)), dump(res))
	}
	if pan {
		c.Violate("Map.NewMap", "panic", shape, cas, nil, detail(st))
		return
	}
	// non-modification, for every list of pairs
	if len(writes) > 0 || !deepEq(before, map[string]interface{}(mv)) {
		c.Violate("Map.NewMap", "receiver-modified", shape, cas, nil, detail(fmt.Sprintf("receiver written (monitor: %v)", writes)))
		return true
	}
	if anyMalformed {
		if err == nil {
			c.Violate("Map.NewMap", "malformed-accepted", shape, cas, nil, detail("a malformed pair was accepted"))
		}
		return false
	}
	// old paths that ValuesForPath itself rejects may be rejected
	type pv struct {
		nw   []string
		vals []interface{}
		wild bool
	}
	var exp []pv
	for _, p := range pairs {
		if p == "" {
			continue
		}
		parts := strings.Split(p, ":")
		old, nw := parts[0], parts[len(parts)-1]
		vals, verr := pristine.ValuesForPath(old)
		c.S.Transitions++
		if verr != nil {
			if err == nil {
				c.Violate("Map.NewMap", "old-path-error-swallowed", shape, cas, nil, detail("ValuesForPath rejects "+old+" but NewMap succeeded"))
			}
			return false
		}
		exp = append(exp, pv{strings.Split(strings.TrimSuffix(nw, "."), "."), vals, strings.Contains(old, "*")})
	}
	if err != nil {
		c.Violate("Map.NewMap", "error-on-wellformed-pairs", shape, cas, nil, detail("well-formed pairs rejected"))
		return false
	}
	c.Outcome(dump(res))
	if overlap {
		return len(res) > 0
	}
	// exact content
	want := map[string]interface{}{}
	multi := map[string]bool{} // locations whose list is order-free (wildcard old path)
	for _, e := range exp {
		if len(e.vals) == 0 {
			continue
		}
		cur := want
		for _, k := range e.nw[:len(e.nw)-1] {
			nx, ok := cur[k].(map[string]interface{})
			if !ok {
				nx = map[string]interface{}{}
				cur[k] = nx
			}
			cur = nx
		}
		lastK := e.nw[len(e.nw)-1]
		if len(e.vals) == 1 {
			cur[lastK] = e.vals[0]
		} else {
			cur[lastK] = e.vals
			if e.wild {
				multi[strings.Join(e.nw, "/")] = true
			}
		}
	}
	if !c12Equal(want, map[string]interface{}(res), "", multi) {
		c.Violate("Map.NewMap", "content", shape, cas, nil, detail("expected result="+dump(want)))
	}
	return len(want) > 0
}

// c12Equal: deep equality where lists at the given locations are compared as multisets.
func c12Equal(a, b interface{}, loc string, multi map[string]bool) bool {
	am, aok := a.(map[string]interface{})
	bm, bok := b.(map[string]interface{})
	if aok && bok {
		if len(am) != len(bm) {
			return false
		}
		for k, av := range am {
			bv, ok := bm[k]
			l := k
			if loc != "" {
				l = loc + "/" + k
			}
			if !ok || !c12Equal(av, bv, l, multi) {
				return false
			}
		}
		return true
	}
	if multi[loc] {
		al, aok := a.([]interface{})
		bl, bok := b.([]interface{})
		if aok && bok {
			return eqStrings(sortedCopy(dumpSeq(al)), sortedCopy(dumpSeq(bl)))
		}
	}
	return deepEq(a, b)
}

func c12Run(c *Ctx) {
	mustBeDefault(c)
	c.S.Rule = "cases = (Map, list of key pairs): every Map template with <= N nodes over keys {a,ab,k} (lists, empty containers, null leaves) x every single pair old:new with old over paths of <= 2 steps from {a,b,k,z,*,a[0],k[1]} and new over {x,y,x.y,x.z}, the old shorthand, keys and pair parts with blanks at their edges (Maps over keys {a, \" a\", \"a \"}: a key is the exact string), and malformed pairs (a:, :a, a:b:c, a:b*, a:b[0], z:x*, z:y[0]); every list of two pairs from a reduced pair set (also on Maps of 6 nodes over {a,k} that hold a mixed list - a simple value before a map - below the top level) (incl. equal and extending new paths) on Maps with <= M nodes; every list of three pairs over {a:x, ab:x, k:x, a:x.y, ab:x.y, k:x.y, *:x} on Maps with <= 4 nodes; a wide family (lists of 31, 32, 33, 64, 65 members under the old path). Oracle: receiver deep-equal to its copy AND no monitored store into any container reachable from the receiver; malformed => error; exact content (reference projection built from ValuesForPath on a pristine copy) when no new path equals or extends another. Ascending and descending map order. non-trivial = non-empty result."
	c.S.Assumptions = []string{"ValuesForPath itself is validated by C07; the content oracle uses it on a pristine copy as the property states", "lists produced from wildcard old paths are compared as multisets"}
	n, n2 := 5, 4
	if c.Thorough {
		n, n2 = 6, 5
	}
	var olds []string
	seqs([]string{"a", "ab", "k", "z", "*", "a[0]", "k[1]"}, 2, func(s []string) { olds = append(olds, strings.Join(s, ".")) })
	newsA := []string{"x", "y", "x.y", "x.z"}
	var singles []string
	for _, o := range olds {
		for _, nw := range newsA {
			singles = append(singles, o+":"+nw)
		}
		if !strings.ContainsAny(o, "*[") {
			singles = append(singles, o)
		}
	}
	// new paths with multi-byte characters whose code points end in the byte of '*' or '[' (well formed)
	singles = append(singles, "a:\u305b", "k:x.\u012a", "*:\u062a", "ab:\u015b.y", "a.ab:\u00e9", "a")
	singles = append(singles, "a:", ":a", "a:b:c", "a:b*", "a:b[0]", "z:x*", "z:y[0]", "a.", "a:x.", "*", "a[0]", "z:x[", "")
	var reduced []string
	for _, o := range []string{"a", "ab", "k", "*", "a[0]", "a.ab", "k.*", "z"} {
		for _, nw := range newsA {
			reduced = append(reduced, o+":"+nw)
		}
	}
	reduced = append(reduced, "z:x*", "a:", "a")
	// new paths that run through keys found inside an earlier projected value (maps below lists included)
	for _, o := range []string{"a", "ab", "k"} {
		for _, nw := range []string{"x.k", "x.a.y", "x.k.y", "x.b.k"} {
			reduced = append(reduced, o+":"+nw)
		}
	}
	run := func(t *T, pairs []string) {
		if !c.Mine() {
			return
		}
		c.S.States++
		c.S.Evaluations++
		for _, pol := range []int{rt.PolicySorted, rt.PolicyReverse} {
			rt.OrderPolicy = pol
			m := inst(t, mixLeaves()).(map[string]interface{})
			nt := c12Check(c, m, pairs)
			c.S.Schedules++
			c.S.Validated++
			if nt && pol == rt.PolicySorted {
				c.S.Nontrivial++
				c.Sample(map[string]interface{}{"map": json.RawMessage(jsonOf(inst(t, mixLeaves()))), "pairs": pairs})
			}
		}
		rt.OrderPolicy = rt.PolicySorted
	}
	g := newGen(GenP{Keys: []string{"a", "ab", "k"}, MaxList: 3, MaxKeys: 3, EmptyList: true, EmptyMap: true, ListInList: false})
	g.rootMaps(n, func(t *T) {
		for _, s := range singles {
			run(t, []string{s})
		}
	})
	g.rootMaps(n2, func(t *T) {
		for _, p1 := range reduced {
			for _, p2 := range reduced {
				run(t, []string{p1, p2})
			}
		}
	})
	// keys and pair parts with blanks at their edges: a key is the exact string, " a" and "a" are different keys
	gb := newGen(GenP{Keys: []string{"a", " a", "a "}, MaxList: 2, MaxKeys: 3, EmptyList: false, EmptyMap: true, ListInList: false})
	gb.rootMaps(4, func(t *T) {
		for _, s := range []string{" a:x", "a :x", "a:x", "a: x", "a:x ", " a", "a ", "a.a :x", " a.a:x.y", "a : x", "*: x", " a.*:x"} {
			run(t, []string{s})
		}
	})
	// mixed lists below the top level (a simple value before a map, as a repeated tag that is once a leaf and once
	// complex decodes): every list of two pairs from the reduced set, on Maps one node larger
	var mixedBelow func(t *T, depth int) bool
	mixedBelow = func(t *T, depth int) bool {
		if t.Kind == 'L' && depth >= 2 {
			leafSeen := false
			for _, k := range t.Kids {
				if k.Kind == 'v' {
					leafSeen = true
				} else if leafSeen && k.Kind == 'M' && len(k.Kids) > 0 {
					return true
				}
			}
		}
		for _, k := range t.Kids {
			if mixedBelow(k, depth+1) {
				return true
			}
		}
		return false
	}
	gm := newGen(GenP{Keys: []string{"a", "k"}, MaxList: 2, MaxKeys: 2, EmptyList: false, EmptyMap: false, ListInList: false})
	gm.rootMaps(6, func(t *T) {
		if !mixedBelow(t, 0) {
			return
		}
		c.Count("mixed_list_templates", 1)
		for _, p1 := range reduced {
			for _, p2 := range reduced {
				run(t, []string{p1, p2})
			}
		}
	})
	// three pairs: the same new path twice (scalar and container values in either order) and a pair extending it
	tri := []string{"a:x", "ab:x", "k:x", "a:x.y", "ab:x.y", "k:x.y", "*:x"}
	g.rootMaps(4, func(t *T) {
		for _, p1 := range tri {
			for _, p2 := range tri {
				for _, p3 := range tri {
					run(t, []string{p1, p2, p3})
				}
			}
		}
	})
	// wide family: old paths that end at lists around the internal initial result capacity (32) and its doubling
	for _, width := range []int{31, 32, 33, 64, 65} {
		for _, pairs := range [][]string{{"a:x"}, {"a:x", "k:x.y"}, {"a:x", "ab.k:x.k2"}, {"ab:x"}, {"ab:x", "k:x.y"}, {"*:x"}, {"ab.k:x", "k:x.y"}, {"a:x", "a:y"}} {
			if !c.Mine() {
				continue
			}
			c.S.States++
			c.S.Evaluations++
			for _, pol := range []int{rt.PolicySorted, rt.PolicyReverse} {
				rt.OrderPolicy = pol
				wl := make([]interface{}, width)
				ws := make([]interface{}, width)
				for i := range wl {
					wl[i] = map[string]interface{}{"k": "m" + strconv.Itoa(i)}
					ws[i] = "s" + strconv.Itoa(i)
				}
				c12Check(c, map[string]interface{}{"a": wl, "ab": map[string]interface{}{"k": ws}, "k": "v"}, pairs)
				c.S.Schedules++
				c.S.Validated++
			}
			rt.OrderPolicy = rt.PolicySorted
		}
	}
	// nil lists inside projected values (what NewMapGob returns for an empty list): the projection holds what
	// ValuesForPath yields - a nil list stays a nil list (Json() writes null for one and [] for the other)
	for _, mk := range []func() map[string]interface{}{
		func() map[string]interface{} {
			return map[string]interface{}{"a": map[string]interface{}{"k": []interface{}(nil), "ab": "v"}}
		},
		func() map[string]interface{} {
			return map[string]interface{}{"a": []interface{}{map[string]interface{}{"k": []interface{}(nil)}, "v"}, "k": []interface{}(nil)}
		},
	} {
		for _, pr := range [][]string{{"a:x"}, {"a.ab:x", "a:y"}, {"*:x"}, {"a.k:x"}, {"k:x.y"}} {
			if !c.Mine() {
				continue
			}
			c.S.States++
			c.S.Evaluations++
			c12Check(c, mk(), pr)
			c.S.Schedules++
			c.S.Validated++
		}
	}
	if c.Thorough {
		three := []string{"a:x", "ab:x.y", "k:x.y.z", "*:x", "a[0]:y", "a.ab:x.z"}
		g.rootMaps(4, func(t *T) {
			for _, p1 := range three {
				for _, p2 := range three {
					for _, p3 := range three {
						run(t, []string{p1, p2, p3})
					}
				}
			}
		})
	}
}
