package main

import (
	"bytes"
	"encoding/json"
	"encoding/xml"
	"fmt"
	"io"
	"strings"

	mxj "github.com/clbanning/mxj/v2"
	rt "github.com/clbanning/mxj/v2/zzverifrt"
)

// C02 — XML -> Map -> XML -> Map is a fixed point; re-encoded XML is well formed.

type c02Case struct {
	Doc    *XElem `json:"doc"`
	Text   string `json:"xml"`
	Cfg    Cfg    `json:"cfg"`
	Enc    string `json:"encoder"` // Xml | XmlIndent
	Prefix string `json:"prefix"`
	Indent string `json:"indent"`
	Pol    int    `json:"order_policy"`
}

func init() {
	register(&Property{ID: "C02", Run: c02Run, Replay: func(c *Ctx, cas json.RawMessage, ch []int) {
		var k c02Case
		json.Unmarshal(cas, &k)
		applyCfg(k.Cfg)
		run := func() { c02Check(c, k.Doc, k.Cfg, k.Enc, k.Prefix, k.Indent, ch) }
		if len(ch) > 0 {
			rt.OrderPolicy = rt.PolicyChoose
			runWith(ch, run)
		} else {
			rt.OrderPolicy = k.Pol
			run()
		}
		rt.OrderPolicy = rt.PolicySorted
		resetOptions()
	}})
}

// parseXElem parses XML text into the abstract form (prefix-preserving) using RawToken.
func parseXElem(x []byte) (*XElem, error) {
	d := xml.NewDecoder(bytes.NewReader(x))
	var stack []*XElem
	var root *XElem
	for {
		t, err := d.RawToken()
		if err == io.EOF {
			break
		}
		if err != nil {
			return nil, err
		}
		switch tt := t.(type) {
		case xml.StartElement:
			e := &XElem{Prefix: tt.Name.Space, Local: tt.Name.Local}
			for _, a := range tt.Attr {
				e.Attrs = append(e.Attrs, XAttr{Prefix: a.Name.Space, Local: a.Name.Local, Value: a.Value})
			}
			if len(stack) > 0 {
				p := stack[len(stack)-1]
				p.Items = append(p.Items, XItem{Kind: 'e', Elem: e})
			} else if root == nil {
				root = e
			}
			stack = append(stack, e)
		case xml.EndElement:
			if len(stack) == 0 {
				return nil, fmt.Errorf("stray end tag")
			}
			stack = stack[:len(stack)-1]
		case xml.CharData:
			if len(stack) > 0 {
				p := stack[len(stack)-1]
				// merge adjacent character data
				if n := len(p.Items); n > 0 && p.Items[n-1].Kind == 't' {
					p.Items[n-1].Text += string(tt)
				} else {
					p.Items = append(p.Items, XItem{Kind: 't', Text: string(tt)})
				}
			}
		case xml.Comment:
			if len(stack) > 0 {
				p := stack[len(stack)-1]
				p.Items = append(p.Items, XItem{Kind: 'c', Text: string(tt)})
			}
		case xml.ProcInst:
			if len(stack) > 0 {
				p := stack[len(stack)-1]
				p.Items = append(p.Items, XItem{Kind: 'p', Target: tt.Target, Text: string(tt.Inst)})
			}
		case xml.Directive:
			if len(stack) > 0 {
				p := stack[len(stack)-1]
				p.Items = append(p.Items, XItem{Kind: 'd', Text: string(tt)})
			}
		}
	}
	if root == nil {
		return nil, fmt.Errorf("no root")
	}
	return root, nil
}

func c02Shape(doc *XElem, cfg Cfg, enc, prefix, indent string) string {
	s := c01Shape(doc)
	if enc == "XmlIndent" && cfg.KeepSpaces && strings.Contains(prefix+indent, " ") {
		return "indent-with-spaces-under-keep-spaces"
	}
	return s
}

func c02Check(c *Ctx, doc *XElem, cfg Cfg, enc, prefix, indent string, choices []int) (nontrivial bool) {
	xmlText := renderDoc(doc, rvDefault)
	cas := func() interface{} {
		return c02Case{Doc: doc, Text: xmlText, Cfg: cfg, Enc: enc, Prefix: prefix, Indent: indent, Pol: rt.OrderPolicy}
	}
	shape := c02Shape(doc, cfg, enc, prefix, indent)
	var m1, m2 mxj.Map
	var x []byte
	var err error
	st, pan := protect(func() {
		m1, err = mxj.NewMapXml([]byte(xmlText), cfg.Cast)
		if err != nil {
			return
		}
		if enc == "Xml" {
			x, err = m1.Xml()
		} else {
			x, err = m1.XmlIndent(prefix, indent)
		}
	})
	c.S.Transitions += 2
	c.S.Validated++
	if pan {
		c.Violate(enc, "panic", shape, cas, choices, st)
		return
	}
	if err != nil {
		c.Violate(enc, "error", shape, cas, choices, fmt.Sprintf("xml=%q cfg=%+v err=%v", xmlText, cfg, err))
		return
	}
	c.Retain(enc, x, cas)
	if werr := wellFormed(x); werr != nil {
		c.Violate(enc, "well-formed", shape, cas, choices, fmt.Sprintf("xml=%q cfg=%+v\n m1=%s\n output=%q\n %v", xmlText, cfg, dump(m1), x, werr))
		return true
	}
	st, pan = protect(func() { m2, err = mxj.NewMapXml(x, cfg.Cast) })
	c.S.Transitions++
	if pan {
		c.Violate("NewMapXml", "panic", shape, cas, choices, st)
		return
	}
	if err != nil || !deepEq(map[string]interface{}(m1), map[string]interface{}(m2)) {
		c.Violate(enc, "fixed-point", shape, cas, choices, fmt.Sprintf("xml=%q cfg=%+v %s(%q,%q)\n m1=%s\n re-encoded=%q\n m2=%s err=%v", xmlText, cfg, enc, prefix, indent, dump(m1), x, dump(m2), err))
		return true
	}
	// independent reading of the re-encoded document: reference decode of its parse must give m1 too
	if tree, perr := parseXElem(x); perr != nil {
		c.Violate(enc, "well-formed", shape, cas, choices, fmt.Sprintf("output=%q %v", x, perr))
	} else if exp := refDecode(tree, cfg); !deepEq(map[string]interface{}(m1), exp) {
		c.Violate(enc, "reference-reading", shape, cas, choices, fmt.Sprintf("xml=%q cfg=%+v\n m1=%s\n re-encoded=%q\n reference decode of re-encoded=%s", xmlText, cfg, dump(m1), x, dump(exp)))
	}
	c.Outcome(string(x))
	return true
}

var c02Vals = []string{"v", " v ", "1.0", "true", "<&\"'>", "it's", "é\tü\n", "007", "&amp;", "]]>", "say \"hi\"", "\u0141 & \u4e2d<\u00e9", "3.14159265", "16777217", "-1.7976931348623157e308", "a\ufffdb\U0001F600", "18446744073709551615"}

// c02CoreValues: when set, c02Decos uses the first 9 values only (pairs of decorations in the quick tier).
var c02CoreValues bool

func c02Decos(base *XElem, thorough bool) []Deco {
	var ds []Deco
	els := base.elems()
	attrNames := []string{"x", "x-y", "n:x", "X"}
	vals := c02Vals
	if c02CoreValues {
		vals = vals[:9]
	}
	renames := []string{"B", "a-b", "n:a"}
	for i, e := range els {
		nk := len(e.Items)
		for ai, an := range attrNames {
			for vi, av := range vals {
				if !thorough && ai > 0 && vi > 2 {
					continue
				}
				ds = append(ds, Deco{Kind: 'a', El: i, Name: an, Value: av})
			}
		}
		for pos := 0; pos <= nk; pos++ {
			for ti, tv := range vals {
				ds = append(ds, Deco{Kind: 't', El: i, Pos: pos, Value: tv})
				if ti == 4 && pos == 0 {
					ds = append(ds, Deco{Kind: 't', El: i, Pos: pos, Value: "a<b&c", CData: true})
					ds = append(ds, Deco{Kind: 't', El: i, Pos: pos, Value: "a<b&c", Split: 2})
				}
			}
		}
		for _, rn := range renames {
			ds = append(ds, Deco{Kind: 'n', El: i, Name: rn})
		}
	}
	return ds
}

func c02Cfgs(maxDev int) []Cfg {
	var out []Cfg
	for _, ap := range []string{"-", "@", "A_"} {
		for _, kp := range []string{"#", "_"} {
			for bits := 0; bits < 64; bits++ {
				dev := 0
				if ap != "-" {
					dev++
				}
				if ap == "A_" && (bits&1 == 0 || bits&^(1|2|32) != 0 || kp != "#") {
					continue // the prefix with a capital letter: with key folding on, and snake case / cast at most
				}
				if kp != "#" {
					dev++
				}
				for b := 0; b < 6; b++ {
					if bits&(1<<b) != 0 {
						dev++
					}
				}
				if maxDev >= 0 && dev > maxDev {
					continue
				}
				cfg := Cfg{AttrPrefix: ap, KeyPrefix: kp, Lower: bits&1 != 0, Snake: bits&2 != 0, SimpleMap: bits&4 != 0,
					KeepSpaces: bits&8 != 0, Cast: bits&32 != 0}
				if bits&16 != 0 {
					cfg.EscDec = true
					out = append(out, cfg)
					// the same configuration reached with both switches requested, in either order
					// (documented: decoder-side escaping takes over, encoder-side escaping is off)
					cfg.EscEnc = true
					out = append(out, cfg)
					cfg.EscEncFirst = true
					out = append(out, cfg)
					cfg.Toggle = true // ... and with the no-argument forms of every boolean setter
					out = append(out, cfg)
					continue
				}
				cfg.EscEnc = true
				out = append(out, cfg)
				if dev <= 1 {
					cfg.Toggle = true // the same configuration reached through the no-argument setter forms
					out = append(out, cfg)
					cfg.Toggle = false
					cfg.NoOpSetters = true // ... and with every other boolean setter called with its default afterwards
					out = append(out, cfg)
				}
			}
		}
	}
	return out
}

func c02Run(c *Ctx) {
	mustBeDefault(c)
	c.S.Rule = "cases = (document, configuration, encoder): documents are all element trees with <= N elements (names over {a,b}) with <= 1 decoration (quick: trees with N-1 elements meet every second (configuration, document, encoder) triple and all configurations with <= 2 deviations, trees with N elements the latter only) (attribute / text at every position / renamed element; values with all five XML special characters, blanks, tab/newline, non-ASCII, number and boolean look-alikes, an already-escaped sequence, ]]>) under all 512 symmetric configurations (attribute prefix {-,@} [and 'A_', a prefix with a capital letter, under key folding] x key prefix {#,_} x lower x snake x simple-as-map x keep-spaces x escaping {encoder-side, decoder-side, both requested in either call order, both requested through the no-argument setter forms, every other boolean setter called with its default value afterwards} x cast; configurations with <= 1 deviation also reached through the no-argument (toggle) setter forms), and with 2 decorations (quick: over the first 9 values) under configurations with <= 2 option deviations; encoders Xml and XmlIndent with (prefix,indent) in {(\"\",\"  \"),(\"\",\"\\t\"),(\" \",\" \")}. Oracle: re-encoded text well formed (single root), decode(encode(m1)) == m1, and the reference decode of the re-encoded text's parse equals m1. Ascending and descending map order; E-choice bound 1 over map order on the small documents. non-trivial = round trip executed."
	c.S.Assumptions = []string{"element names do not begin with the attribute prefix; attribute prefixes non-empty (as the property states)", "integer casting and tag sequence numbers excluded (documented as asymmetric)"}
	maxA, maxB, ech := 4, 3, 2
	if c.Thorough {
		maxA, maxB, ech = 5, 3, 3
	}
	type encSpec struct{ enc, prefix, indent string }
	encs := []encSpec{{"Xml", "", ""}, {"XmlIndent", "", "  "}, {"XmlIndent", "", "\t"}, {"XmlIndent", " ", " "}}
	var docsA, docsA3, docsA2, docsB []*XElem
	for n := 1; n <= maxA; n++ {
		for _, base := range baseTrees(n, "r", []string{"a", "b"}, 3) {
			dst := &docsA
			if n == maxA && !c.Thorough {
				dst = &docsA2 // quick: the largest trees meet the configurations with <= 2 option deviations only
			} else if n == maxA-1 && !c.Thorough {
				dst = &docsA3 // quick: the second largest meet every second (configuration, document, encoder) triple
			}
			*dst = append(*dst, base)
			for _, d := range c02Decos(base, c.Thorough) {
				if doc, ok := applyDecos(base, []Deco{d}); ok && !c01OutOfUniverse(doc) {
					*dst = append(*dst, doc)
				}
			}
		}
	}
	for n := 1; n <= maxB; n++ {
		for _, base := range baseTrees(n, "r", []string{"a", "b"}, 3) {
			c02CoreValues = !c.Thorough
			ds := c02Decos(base, false)
			c02CoreValues = false
			for i := range ds {
				for j := i + 1; j < len(ds); j++ {
					if doc, ok := applyDecos(base, []Deco{ds[i], ds[j]}); ok && !c01OutOfUniverse(doc) {
						docsB = append(docsB, doc)
					}
				}
			}
		}
	}
	if c.Shard == 0 {
		c.Count("documents_le1_decoration", int64(len(docsA)+len(docsA2)+len(docsA3)))
		c.Count("documents_2_decorations", int64(len(docsB)))
	}
	run := func(cfgs []Cfg, docs []*XElem, cfgStride int) {
		for ci, cfg := range cfgs {
			applied := false
			for di, doc := range docs {
				for ei, e := range encs {
					if cfgStride > 1 && (ci+di+ei)%cfgStride != 0 {
						continue
					}
					if !c.Mine() {
						continue
					}
					if !applied {
						applyCfg(cfg)
						applied = true
					}
					c.S.States++
					c.S.Evaluations++
					rt.OrderPolicy = rt.PolicySorted
					nt := c02Check(c, doc, cfg, e.enc, e.prefix, e.indent, nil)
					c.S.Schedules++
					if c.Thorough || (ci+di)%2 == 0 {
						rt.OrderPolicy = rt.PolicyReverse
						c02Check(c, doc, cfg, e.enc, e.prefix, e.indent, nil)
						c.S.Schedules++
					}
					if nt {
						c.S.Nontrivial++
						c.Sample(map[string]interface{}{"xml": renderDoc(doc, rvDefault), "cfg": cfg, "encoder": e})
					}
					if len(doc.elems()) <= ech && ci%8 == 0 {
						rt.OrderPolicy = rt.PolicyChoose
						ex := &Explorer{Bound: 1, MaxExecs: 2000, Run: func() { c02Check(c, doc, cfg, e.enc, e.prefix, e.indent, curExec.prefix) }, Check: func(x *Exec) bool { return true }}
						ex.Explore()
						c.S.Schedules += ex.Execs
						if ex.Diverged != "" {
							c.Broken("C02: %s", ex.Diverged)
						}
						c.S.BoundCompleted = 1
					}
					rt.OrderPolicy = rt.PolicySorted
				}
			}
			if c.Capped() {
				break
			}
		}
	}
	run(c02Cfgs(-1), docsA, 1)
	run(c02Cfgs(-1), docsA3, 2)
	run(c02Cfgs(2), docsA3, 1)
	run(c02Cfgs(2), docsA2, 1)
	stride := 4
	if c.Thorough {
		stride = 1
	}
	run(c02Cfgs(2), docsB, stride)
	resetOptions()
}
