package main

import (
	"bytes"
	"encoding/json"
	"fmt"
	"os"
	"os/exec"
	"sort"
	"strconv"
	"strings"

	mxj "github.com/clbanning/mxj/v2"
	rt "github.com/clbanning/mxj/v2/zzverifrt"
)

// C18 — Package options have only their documented effect and can always be restored.
// E-state: explicit-state breadth-first search over the real package-option machine.

type c18Case struct {
	History     []string `json:"history"` // transition names, applied after restoring defaults
	Family      string   `json:"family,omitempty"`
	Interleaved bool     `json:"every_family_used_after_every_setter,omitempty"`
	Cold        bool     `json:"cold_start,omitempty"` // the history is the first thing a fresh process does (no call of any kind before it)
	// documented behavioural effect of the empty-element syntax switch (a value and an encoder)
	Value   json.RawMessage `json:"value,omitempty"`
	Encoder string          `json:"encoder,omitempty"`
	// documented effect of the attribute / key prefixes: they name keys inside the Map, nothing else
	Xml    string `json:"xml,omitempty"`
	Prefix string `json:"prefix,omitempty"`
	KeyPfx bool   `json:"key_prefix,omitempty"`
	// documented effect of CoerceKeysToSnakeCase on the decoders: the same Map with '-' in keys turned into '_'
	Snake string `json:"snake_case_document,omitempty"`
}

func init() {
	register(&Property{ID: "C18", Run: c18Run, Replay: func(c *Ctx, cas json.RawMessage, ch []int) {
		var k c18Case
		json.Unmarshal(cas, &k)
		c18Replay(c, k)
	}})
}

// ---- the reference option machine: variable name -> rendered value (same rendering as VerifState)

type optModel map[string]string

func (m optModel) clone() optModel {
	n := make(optModel, len(m))
	for k, v := range m {
		n[k] = v
	}
	return n
}

func q(s string) string { return strconv.Quote(s) }

func (m optModel) b(name string) bool { return m[name] == "true" }
func (m optModel) setb(name string, v bool) {
	m[name] = strconv.FormatBool(v)
}
func (m optModel) s(name string) string {
	v, _ := strconv.Unquote(m[name])
	return v
}

// boolArg: -1 no argument, 0 false, 1 true
func (m optModel) boolOpt(name string, arg int) {
	switch arg {
	case -1:
		m.setb(name, !m.b(name))
	default:
		m.setb(name, arg == 1)
	}
}

type c18Trans struct {
	name   string
	real   func()
	model  func(m optModel)
	writes []string // documented write set (variable names)
}

var c18SkipFn = func(s string) bool { return s == "k" }

var keyVars = []string{"textK", "seqK", "commentK", "attrK", "directiveK", "procinstK", "targetK", "instK"}

func c18Transitions() []c18Trans {
	var ts []c18Trans
	add := func(name string, real func(), model func(m optModel), writes ...string) {
		ts = append(ts, c18Trans{name, real, model, writes})
	}
	boolSetter := func(fn string, v string, f func(b ...bool), noArg func(m optModel)) {
		add(fn+"(true)", func() { f(true) }, func(m optModel) { m.boolOpt(v, 1) }, v)
		add(fn+"(false)", func() { f(false) }, func(m optModel) { m.boolOpt(v, 0) }, v)
		if noArg == nil {
			noArg = func(m optModel) { m.boolOpt(v, -1) }
		}
		add(fn+"()", func() { f() }, noArg, v)
	}
	boolSetter("IncludeTagSeqNum", "includeTagSeqNum", mxj.IncludeTagSeqNum, nil)
	boolSetter("CoerceKeysToLower", "lowerCase", mxj.CoerceKeysToLower, nil)
	boolSetter("CoerceKeysToSnakeCase", "snakeCaseKeys", mxj.CoerceKeysToSnakeCase, nil)
	boolSetter("CastValuesToInt", "castToInt", mxj.CastValuesToInt, nil)
	boolSetter("CastValuesToFloat", "castToFloat", mxj.CastValuesToFloat, nil)
	boolSetter("CastValuesToBool", "castToBool", mxj.CastValuesToBool, nil)
	boolSetter("CastNanInf", "castNanInf", mxj.CastNanInf, nil)
	boolSetter("HandleXMPPStreamTag", "handleXMPPStreamTag", mxj.HandleXMPPStreamTag, nil)
	boolSetter("DecodeSimpleValuesAsMap", "decodeSimpleValuesAsMap", mxj.DecodeSimpleValuesAsMap, nil)
	boolSetter("XmlCheckIsValid", "xmlCheckIsValid", mxj.XmlCheckIsValid, nil)
	boolSetter("LeafUseDotNotation", "useDotNotation", mxj.LeafUseDotNotation, nil)
	// white space: no argument = disable; trimRunes follows the flag
	trim := func(m optModel) {
		if m.b("disableTrimWhiteSpace") {
			m["trimRunes"] = q("\t\r\b\n")
		} else {
			m["trimRunes"] = q("\t\r\b\n ")
		}
	}
	for _, a := range []int{1, 0, -1} {
		a := a
		nm := map[int]string{1: "DisableTrimWhiteSpace(true)", 0: "DisableTrimWhiteSpace(false)", -1: "DisableTrimWhiteSpace()"}[a]
		add(nm, func() {
			switch a {
			case 1:
				mxj.DisableTrimWhiteSpace(true)
			case 0:
				mxj.DisableTrimWhiteSpace(false)
			default:
				mxj.DisableTrimWhiteSpace()
			}
		}, func(m optModel) {
			if a == -1 {
				m.setb("disableTrimWhiteSpace", true)
			} else {
				m.setb("disableTrimWhiteSpace", a == 1)
			}
			trim(m)
		}, "disableTrimWhiteSpace", "trimRunes")
	}
	// the two escaping switches are coupled as documented
	for _, a := range []int{1, 0, -1} {
		a := a
		nm := map[int]string{1: "XMLEscapeChars(true)", 0: "XMLEscapeChars(false)", -1: "XMLEscapeChars()"}[a]
		add(nm, func() {
			switch a {
			case 1:
				mxj.XMLEscapeChars(true)
			case 0:
				mxj.XMLEscapeChars(false)
			default:
				mxj.XMLEscapeChars()
			}
		}, func(m optModel) {
			want := a == 1
			if a == -1 {
				want = !m.b("xmlEscapeChars")
			}
			// ignored (stays off) while decoder-side escaping is on
			m.setb("xmlEscapeChars", want && !m.b("xmlEscapeCharsDecoder"))
		}, "xmlEscapeChars")
		nm2 := map[int]string{1: "XMLEscapeCharsDecoder(true)", 0: "XMLEscapeCharsDecoder(false)", -1: "XMLEscapeCharsDecoder()"}[a]
		add(nm2, func() {
			switch a {
			case 1:
				mxj.XMLEscapeCharsDecoder(true)
			case 0:
				mxj.XMLEscapeCharsDecoder(false)
			default:
				mxj.XMLEscapeCharsDecoder()
			}
		}, func(m optModel) {
			m.boolOpt("xmlEscapeCharsDecoder", a)
			if m.b("xmlEscapeCharsDecoder") {
				m.setb("xmlEscapeChars", false)
			}
		}, "xmlEscapeCharsDecoder", "xmlEscapeChars")
	}
	for _, p := range []string{"-", "", "@", "_"} {
		p := p
		add("SetAttrPrefix("+q(p)+")", func() { mxj.SetAttrPrefix(p) }, func(m optModel) {
			m["attrPrefix"] = q(p)
			m["lenAttrPrefix"] = strconv.Itoa(len(p))
		}, "attrPrefix", "lenAttrPrefix")
	}
	for _, v := range []bool{true, false} {
		v := v
		add(fmt.Sprintf("PrependAttrWithHyphen(%v)", v), func() { mxj.PrependAttrWithHyphen(v) }, func(m optModel) {
			p := ""
			if v {
				p = "-"
			}
			m["attrPrefix"] = q(p)
			m["lenAttrPrefix"] = strconv.Itoa(len(p))
		}, "attrPrefix", "lenAttrPrefix")
	}
	for _, p := range []string{"#", "_", "$"} {
		p := p
		add("SetGlobalKeyMapPrefix("+q(p)+")", func() { mxj.SetGlobalKeyMapPrefix(p); curKeyPrefix = p }, func(m optModel) {
			for _, kv := range keyVars {
				old := m.s(kv)
				m[kv] = q(p + old[1:])
			}
		}, keyVars...)
	}
	add("SetCheckTagToSkipFunc(nil)", func() { mxj.SetCheckTagToSkipFunc(nil) }, func(m optModel) { m["checkTagToSkip"] = "func:nil" }, "checkTagToSkip")
	add("SetCheckTagToSkipFunc(f)", func() { mxj.SetCheckTagToSkipFunc(c18SkipFn) }, func(m optModel) { m["checkTagToSkip"] = "func:set" }, "checkTagToSkip")
	add("XmlGoEmptyElemSyntax()", func() { mxj.XmlGoEmptyElemSyntax() }, func(m optModel) { m.setb("useGoXmlEmptyElemSyntax", true) }, "useGoXmlEmptyElemSyntax")
	add("XmlDefaultEmptyElemSyntax()", func() { mxj.XmlDefaultEmptyElemSyntax() }, func(m optModel) { m.setb("useGoXmlEmptyElemSyntax", false) }, "useGoXmlEmptyElemSyntax")
	add("SetFieldSeparator()", func() { mxj.SetFieldSeparator() }, func(m optModel) { m["fieldSep"] = q(":") }, "fieldSep")
	add(`SetFieldSeparator("")`, func() { mxj.SetFieldSeparator("") }, func(m optModel) { m["fieldSep"] = q(":") }, "fieldSep")
	add(`SetFieldSeparator("|")`, func() { mxj.SetFieldSeparator("|") }, func(m optModel) { m["fieldSep"] = q("|") }, "fieldSep")
	add(`SetFieldSeparator(":")`, func() { mxj.SetFieldSeparator(":") }, func(m optModel) { m["fieldSep"] = q(":") }, "fieldSep")
	add("SetArraySize(10)", func() { mxj.SetArraySize(10) }, func(m optModel) { m["defaultArraySize"] = "32" }, "defaultArraySize")
	add("SetArraySize(100)", func() { mxj.SetArraySize(100) }, func(m optModel) { m["defaultArraySize"] = "100" }, "defaultArraySize")
	add("JsonUseNumber=true", func() { mxj.JsonUseNumber = true }, func(m optModel) { m.setb("JsonUseNumber", true) }, "JsonUseNumber")
	add("JsonUseNumber=false", func() { mxj.JsonUseNumber = false }, func(m optModel) { m.setb("JsonUseNumber", false) }, "JsonUseNumber")
	return ts
}

// realVector reads the real option state, normalising function pointers.
func realVector() optModel {
	m := optModel{}
	for _, e := range mxj.VerifState() {
		i := strings.Index(e, "=")
		name, val := e[:i], e[i+1:]
		if !isOptionVar(e) {
			continue // tables, caches, pools, counters, lazily set flags: not part of the option state
		}
		if strings.HasPrefix(val, "func:") && val != "func:nil" {
			val = "func:set"
		}
		m[name] = val
	}
	return m
}

// hiddenVector renders the package-level variables of the tree under test that are NOT option state and are
// not containers (a flag, a counter, a remembered value a setter keeps beside the option it documents).
// They are never compared with anything - a correct implementation may keep such state - but they are part
// of the identity of a state in the search: two histories that agree on the option vector and differ here
// may have different futures, so they are not merged (a state merged away is a future never explored).
func hiddenVector() string {
	var sb strings.Builder
	for _, e := range mxj.VerifState() {
		i := strings.Index(e, "=")
		if i <= 0 || optionVars[e[:i]] || strings.HasPrefix(e[i+1:], "aux:") {
			continue
		}
		val := e[i+1:]
		if strings.HasPrefix(val, "func:") && val != "func:nil" {
			val = "func:set"
		}
		sb.WriteString(e[:i] + "=" + val + ";")
	}
	return sb.String()
}

func (m optModel) key() string {
	ks := make([]string, 0, len(m))
	for k := range m {
		ks = append(ks, k)
	}
	sort.Strings(ks)
	var sb strings.Builder
	for _, k := range ks {
		sb.WriteString(k + "=" + m[k] + ";")
	}
	return sb.String()
}

func diffModels(exp, got optModel) string {
	var d []string
	for k, v := range exp {
		if got[k] != v {
			d = append(d, fmt.Sprintf("%s: expected %s, is %s", k, v, got[k]))
		}
	}
	for k, v := range got {
		if _, ok := exp[k]; !ok {
			d = append(d, fmt.Sprintf("%s: unexpected variable (=%s)", k, v))
		}
	}
	sort.Strings(d)
	return strings.Join(d, "; ")
}

// ---- behaviour battery, by API family, with the variables each family may depend on

type c18Family struct {
	name string
	deps []string
	run  func() string
}

// c18OptChanged: set by a family run that left the option vector different from what it found (first one wins).
var c18OptChanged string

func c18Families() []c18Family {
	res := func(parts ...interface{}) string {
		var sb strings.Builder
		for _, p := range parts {
			switch t := p.(type) {
			case error:
				if t != nil {
					sb.WriteString("ERR;")
				} else {
					sb.WriteString("ok;")
				}
			case []byte:
				sb.WriteString(string(t) + ";")
			default:
				sb.WriteString(dump(p) + ";")
			}
		}
		return sb.String()
	}
	guard := func(f func() string) func() string {
		return func() (s string) {
			before := realVector()
			if st, pan := protect(func() { s = f() }); pan {
				return "PANIC " + strings.SplitN(st, "\n", 2)[0]
			}
			// a decode, encode or query is not an option setter: the option vector is what it was
			if d := diffModels(before, realVector()); d != "" && c18OptChanged == "" {
				c18OptChanged = d
			}
			return s
		}
	}
	docs := []string{`<r X-y="1 " n:z="t" q="a&amp;b&lt;'" xmlns:n="u"><A-b> v </A-b><k>1.5</k><k a="true">x &amp; y</k><e/><stream><s>1</s></stream></r>`, `<k>NaN</k>`, ` lead<a>t<b/></a>`}
	seqDoc := `<r X-y="1 " q="a&amp;b&lt;'" xmlns:n="u"><!-- c --><n:a> v </n:a><k>1.5</k><?p i?><k>x &amp; y</k></r>`
	keyDeps := append([]string{}, keyVars...)
	decDeps := append([]string{"attrPrefix", "lenAttrPrefix", "lowerCase", "snakeCaseKeys", "decodeSimpleValuesAsMap", "disableTrimWhiteSpace", "trimRunes", "includeTagSeqNum", "xmlEscapeCharsDecoder", "handleXMPPStreamTag", "textK"})
	castDeps := []string{"castToInt", "castToFloat", "castToBool", "castNanInf", "checkTagToSkip"}
	seqDecDeps := append([]string{"snakeCaseKeys", "disableTrimWhiteSpace", "trimRunes", "xmlEscapeCharsDecoder", "handleXMPPStreamTag"}, keyDeps...)
	encDeps := []string{"attrPrefix", "lenAttrPrefix", "textK", "xmlEscapeChars", "useGoXmlEmptyElemSyntax", "xmlCheckIsValid"}
	seqEncDeps := append([]string{"xmlEscapeChars", "useGoXmlEmptyElemSyntax", "xmlCheckIsValid"}, keyDeps...)
	fixedMap := func() mxj.Map {
		return mxj.Map{"r": map[string]interface{}{"-x": "a<b", "@y": "2", "#text": "t & u", "_text": "w", "__v": "3", "c": []interface{}{"1", map[string]interface{}{"-z": "q"}}, "e": ""}}
	}
	fixedSeq := func() mxj.MapSeq {
		// built with the key names currently in force (read from the state dump)
		v := realVector()
		tk, sk, ak, ck := v.s("textK"), v.s("seqK"), v.s("attrK"), v.s("commentK")
		return mxj.MapSeq{"r": map[string]interface{}{
			ak:  map[string]interface{}{"x": map[string]interface{}{tk: "a<b", sk: 0}},
			"k": []interface{}{map[string]interface{}{tk: "1", sk: 1}, map[string]interface{}{tk: "x&y", sk: 2}},
			ck:  map[string]interface{}{tk: " note ", sk: 3},
			"e": map[string]interface{}{sk: 0}}}
	}
	qm := func() mxj.Map {
		return mxj.Map{"a": []interface{}{map[string]interface{}{"-id": "1", "k": "v|1", "#text": "t"}, map[string]interface{}{"-id": "2", "k": "w"}}, "b": map[string]interface{}{"k": true}}
	}
	return []c18Family{
		{"xml-decode-uncast", decDeps, guard(func() string {
			var out []interface{}
			for _, d := range docs {
				m, err := mxj.NewMapXml([]byte(d))
				out = append(out, map[string]interface{}(m), err)
			}
			return res(out...)
		})},
		{"xml-decode-cast", append(append([]string{}, decDeps...), castDeps...), guard(func() string {
			var out []interface{}
			for _, d := range docs {
				m, err := mxj.NewMapXml([]byte(d), true)
				out = append(out, map[string]interface{}(m), err)
			}
			return res(out...)
		})},
		{"seq-decode-uncast", seqDecDeps, guard(func() string {
			m, err := mxj.NewMapXmlSeq([]byte(seqDoc))
			return res(map[string]interface{}(m), err)
		})},
		{"seq-decode-cast", append(append([]string{}, seqDecDeps...), "castToInt", "castToFloat", "castToBool", "castNanInf"), guard(func() string {
			m, err := mxj.NewMapXmlSeq([]byte(seqDoc), true)
			return res(map[string]interface{}(m), err)
		})},
		{"map-encode", encDeps, guard(func() string {
			x, e1 := fixedMap().Xml()
			y, e2 := fixedMap().XmlIndent("", " ")
			z, e3 := mxj.AnyXml([]interface{}{"s", map[string]interface{}{"k": nil}})
			return res(x, e1, y, e2, z, e3)
		})},
		{"beautify", append(append([]string{}, seqDecDeps...), "xmlEscapeChars", "useGoXmlEmptyElemSyntax", "xmlCheckIsValid"), guard(func() string {
			b, err := mxj.BeautifyXml([]byte(seqDoc), "", " ")
			b2, err2 := mxj.BeautifyXml([]byte(`<a x="1"><b>t</b><c/></a>`), " ", "\t")
			return res(b, err, b2, err2)
		})},
		{"seq-encode", seqEncDeps, guard(func() string {
			x, e1 := fixedSeq().Xml()
			y, e2 := fixedSeq().XmlIndent("", " ")
			return res(x, e1, y, e2)
		})},
		{"json", []string{"JsonUseNumber"}, guard(func() string {
			m, e1 := mxj.NewMapJson([]byte(`{"a":1.50,"b":["<",{"c":null}]}`))
			var j []byte
			var e2 error
			if m != nil {
				j, e2 = m.Json()
			}
			cp, e3 := mxj.Map{"x": "<&>"}.Copy()
			return res(map[string]interface{}(m), e1, j, e2, map[string]interface{}(cp), e3)
		})},
		{"query", nil, guard(func() string {
			m := qm()
			a, e1 := m.ValuesForPath("a.k")
			b, e2 := m.ValuesForKey("k")
			c := sortedCopy(m.PathsForKey("k"))
			d, e3 := m.ValuesForPath("a[1].k")
			ex, e4 := m.Exists("b.k")
			return res(a, e1, sortedCopy(dumpSeq(b)), e2, c, d, e3, ex, e4)
		})},
		{"subkeys-and-update", []string{"fieldSep"}, guard(func() string {
			m := qm()
			a, e1 := m.ValuesForPath("a", "k:w")
			b, e2 := m.ValuesForPath("a", "k|v")
			c, e3 := m.ValuesForKey("a", "-id:1")
			n, e4 := m.UpdateValuesForPath("k:new", "b.k")
			n2, e5 := m.UpdateValuesForPath("k|new2", "b.k")
			return res(a, e1, b, e2, c, e3, n, e4, n2, e5, map[string]interface{}(m))
		})},
		{"leafnodes", []string{"useDotNotation", "attrPrefix", "lenAttrPrefix", "textK"}, guard(func() string {
			m := qm()
			return res(sortLeafs(m.LeafNodes()), sortLeafs(m.LeafNodes(true)), sortedCopy(m.LeafPaths(true)))
		})},
		{"elements-attributes", []string{"attrPrefix", "lenAttrPrefix"}, guard(func() string {
			m := mxj.Map{"r": map[string]interface{}{"-x": "1", "@y": "2", "c": "v"}}
			a, e1 := m.Elements("r")
			b, e2 := m.Attributes("r")
			return res(a, e1, b, e2)
		})},
	}
}

// c18SetVar drives one variable to a value through the explicit public setters (used to build the
// canonical representative of a projection).
func c18SetVar(name, val string) {
	bv := val == "true"
	sv, _ := strconv.Unquote(val)
	switch name {
	case "attrPrefix":
		mxj.SetAttrPrefix(sv)
	case "lenAttrPrefix", "trimRunes":
		// derived
	case "textK", "seqK", "commentK", "attrK", "directiveK", "procinstK", "targetK", "instK":
		if curKeyPrefix != sv[:1] {
			mxj.SetGlobalKeyMapPrefix(sv[:1])
			curKeyPrefix = sv[:1]
		}
	case "lowerCase":
		mxj.CoerceKeysToLower(bv)
	case "snakeCaseKeys":
		mxj.CoerceKeysToSnakeCase(bv)
	case "decodeSimpleValuesAsMap":
		mxj.DecodeSimpleValuesAsMap(bv)
	case "disableTrimWhiteSpace":
		mxj.DisableTrimWhiteSpace(bv)
	case "includeTagSeqNum":
		mxj.IncludeTagSeqNum(bv)
	case "xmlEscapeCharsDecoder":
		mxj.XMLEscapeCharsDecoder(bv)
	case "xmlEscapeChars":
		mxj.XMLEscapeChars(bv)
	case "handleXMPPStreamTag":
		mxj.HandleXMPPStreamTag(bv)
	case "castToInt":
		mxj.CastValuesToInt(bv)
	case "castToFloat":
		mxj.CastValuesToFloat(bv)
	case "castToBool":
		mxj.CastValuesToBool(bv)
	case "castNanInf":
		mxj.CastNanInf(bv)
	case "checkTagToSkip":
		if val == "func:nil" {
			mxj.SetCheckTagToSkipFunc(nil)
		} else {
			mxj.SetCheckTagToSkipFunc(c18SkipFn)
		}
	case "useGoXmlEmptyElemSyntax":
		if bv {
			mxj.XmlGoEmptyElemSyntax()
		} else {
			mxj.XmlDefaultEmptyElemSyntax()
		}
	case "xmlCheckIsValid":
		mxj.XmlCheckIsValid(bv)
	case "JsonUseNumber":
		mxj.JsonUseNumber = bv
	case "fieldSep":
		mxj.SetFieldSeparator(sv)
	case "useDotNotation":
		mxj.LeafUseDotNotation(bv)
	}
}

type c18Engine struct {
	c       *Ctx
	trans   []c18Trans
	fams    []c18Family
	base    optModel
	baseBat map[string]string
	canon   map[string]string // family|projection -> result in the canonical state
	broken  bool
	samples int
	hidden  string // hiddenVector() after the last step's transition
}

func (e *c18Engine) goTo(history []int) {
	resetOptions()
	for _, t := range history {
		e.trans[t].real()
	}
}

func (e *c18Engine) names(history []int) []string {
	var n []string
	for _, t := range history {
		n = append(n, e.trans[t].name)
	}
	return n
}

// checkState: (c) restore and (d) non-interference for the state reached by history (model m).
func (e *c18Engine) checkState(history []int, m optModel) {
	c := e.c
	// (d) non-interference: every family behaves as in the canonical state that agrees with this
	// state on the family's documented dependencies and is default everywhere else
	for _, f := range e.fams {
		var proj []string
		for _, d := range f.deps {
			proj = append(proj, d+"="+m[d])
		}
		pk := f.name + "|" + strings.Join(proj, ";")
		want, ok := e.canon[pk]
		if !ok {
			resetOptions()
			// decoder-side escaping first: the encoder-side switch is ignored while it is on
			order := append([]string{}, f.deps...)
			sort.SliceStable(order, func(i, j int) bool { return order[i] == "xmlEscapeCharsDecoder" && order[j] != "xmlEscapeCharsDecoder" })
			for _, d := range order {
				if m[d] != e.base[d] {
					c18SetVar(d, m[d])
				}
			}
			want = f.run()
			e.canon[pk] = want
			c.S.Transitions++
		}
		e.goTo(history)
		c18OptChanged = ""
		got := f.run()
		c.S.Transitions++
		c.S.Validated++
		if c18OptChanged != "" {
			c.Violate(f.name, "data-call-changed-an-option", "family="+f.name, c18Case{History: e.names(history), Family: f.name}, nil,
				fmt.Sprintf("history=%v: using family %s (decode / encode / query calls, no setter) changed the option state: %s", e.names(history), f.name, c18OptChanged))
			c18OptChanged = ""
			return
		}
		if got != want {
			c.Violate(f.name, "non-interference", "family="+f.name, c18Case{History: e.names(history), Family: f.name}, nil,
				fmt.Sprintf("history=%v\n family %s depends on %v only, yet it behaves differently from the state that agrees on those and is default elsewhere\n here     : %s\n canonical: %s\n state differences from default: %s", e.names(history), f.name, f.deps, short(got, 600), short(want, 600), diffModels(e.base, m)))
			return
		}
	}
	// (d') the same with use interleaved
	if len(history) >= 2 {
		if !e.interleaved(history, m) {
			return
		}
	}
	// (c) restore: back to defaults => fresh-process state vector and fresh-process behaviour
	e.goTo(history)
	resetOptions()
	if d := diffModels(e.base, realVector()); d != "" {
		c.Violate("restore-defaults", "state-restored", "restore", c18Case{History: e.names(history)}, nil, fmt.Sprintf("history=%v then all options set back to their defaults: %s", e.names(history), d))
		return
	}
	for _, f := range e.fams {
		got := f.run()
		c.S.Transitions++
		if got != e.baseBat[f.name] {
			c.Violate("restore-defaults", "behaviour-restored", "restore", c18Case{History: e.names(history), Family: f.name}, nil,
				fmt.Sprintf("history=%v then defaults restored: family %s behaves differently from a fresh process\n now  : %s\n fresh: %s", e.names(history), f.name, short(got, 600), short(e.baseBat[f.name], 600)))
			return
		}
	}
}

// canonFor: the family's behaviour in the canonical state that agrees with m on the family's documented
// dependencies and is default everywhere else (computed once per projection).
func (e *c18Engine) canonFor(f c18Family, m optModel) string {
	var proj []string
	for _, d := range f.deps {
		proj = append(proj, d+"="+m[d])
	}
	pk := f.name + "|" + strings.Join(proj, ";")
	want, ok := e.canon[pk]
	if !ok {
		resetOptions()
		// decoder-side escaping first: the encoder-side switch is ignored while it is on
		order := append([]string{}, f.deps...)
		sort.SliceStable(order, func(i, j int) bool { return order[i] == "xmlEscapeCharsDecoder" && order[j] != "xmlEscapeCharsDecoder" })
		for _, d := range order {
			if m[d] != e.base[d] {
				c18SetVar(d, m[d])
			}
		}
		want = f.run()
		e.canon[pk] = want
		e.c.S.Transitions++
	}
	return want
}

// interleaved: every family is used after every setter of the history, not only at its end - whatever an
// implementation remembers from a decode, encode or query made under an earlier option setting must not show
// once the options have moved on. m is the model state the history leads to.
func (e *c18Engine) interleaved(history []int, m optModel) bool {
	c := e.c
	wants := make([]string, len(e.fams))
	for i, f := range e.fams {
		wants[i] = e.canonFor(f, m)
	}
	resetOptions()
	for i, t := range history {
		e.trans[t].real()
		if i < len(history)-1 {
			for _, f := range e.fams {
				f.run()
				c.S.Transitions++
			}
		}
	}
	for i, f := range e.fams {
		got := f.run()
		c.S.Transitions++
		c.S.Validated++
		if got != wants[i] {
			c.Violate(f.name, "non-interference-interleaved-use", "family="+f.name, c18Case{History: e.names(history), Family: f.name, Interleaved: true}, nil,
				fmt.Sprintf("history=%v with every API family used after every setter\n family %s depends on %v only, yet at the end it behaves differently from the canonical state that agrees on those (something remembered from a call made under an earlier setting)\n here     : %s\n canonical: %s", e.names(history), f.name, f.deps, short(got, 600), short(wants[i], 600)))
			return false
		}
	}
	resetOptions()
	for _, f := range e.fams {
		got := f.run()
		c.S.Transitions++
		if got != e.baseBat[f.name] {
			c.Violate("restore-defaults", "behaviour-restored-interleaved-use", "restore", c18Case{History: e.names(history), Family: f.name, Interleaved: true}, nil,
				fmt.Sprintf("history=%v with every API family used after every setter, then defaults restored: family %s behaves differently from a fresh process\n now  : %s\n fresh: %s", e.names(history), f.name, short(got, 600), short(e.baseBat[f.name], 600)))
			return false
		}
	}
	return true
}

// step applies transition t in the state reached by history and checks (a) and (b).
func (e *c18Engine) step(history []int, pm optModel, t int, report bool) optModel {
	e.hidden = ""
	c := e.c
	e.goTo(history)
	tr := e.trans[t]
	rt.ResetGlobals()
	rt.LogGlobals = true
	st, pan := protect(tr.real)
	rt.LogGlobals = false
	written := rt.WrittenGlobals()
	if !pan {
		e.hidden = hiddenVector()
	}
	nm := pm.clone()
	tr.model(nm)
	if !report {
		return nm
	}
	c.S.Transitions++
	c.S.Validated++
	hist := append(e.names(history), tr.name)
	if pan {
		c.Violate(tr.name, "panic", "setter", c18Case{History: hist}, nil, st)
		return nm
	}
	if d := diffModels(nm, realVector()); d != "" {
		c.Violate(tr.name, "documented-effect", "setter", c18Case{History: hist}, nil, fmt.Sprintf("history=%v: after %s the option state differs from the documented one: %s", e.names(history), tr.name, d))
		return nm
	}
	if rt.Instrumented {
		allowed := map[string]bool{}
		for _, w := range tr.writes {
			allowed["mxj."+w] = true
		}
		for _, w := range written {
			if !allowed[w] {
				// informational: the state-vector comparison above is the verdict; a setter that also
				// invalidates a cache writes more than its option variable and is not wrong for that
				c.Count("setter_writes_outside_documented_write_set", 1)
			}
		}
	}
	// idempotence of explicit forms
	if strings.HasSuffix(tr.name, "(true)") || strings.HasSuffix(tr.name, "(false)") || strings.Contains(tr.name, `("`) {
		tr.real()
		c.S.Transitions++
		if d := diffModels(nm, realVector()); d != "" {
			c.Violate(tr.name, "idempotent", "setter", c18Case{History: hist}, nil, fmt.Sprintf("history=%v: calling %s a second time changed the state: %s", e.names(history), tr.name, d))
		}
	}
	return nm
}

func c18Run(c *Ctx) {
	// NOTE: the fresh-process baseline (state vector and behaviour) is recorded before any setter runs
	e := &c18Engine{c: c, trans: c18Transitions(), fams: c18Families(), canon: map[string]string{}, baseBat: map[string]string{}}
	e.base = realVector()
	for _, f := range e.fams {
		e.baseBat[f.name] = f.run()
		if strings.HasPrefix(e.baseBat[f.name], "PANIC") {
			c.Broken("C18: battery panics in the fresh process: %s", e.baseBat[f.name])
			return
		}
	}
	c.S.Rule = "explicit-state breadth-first search over the real package-option machine: state = dump (generated at build time) of the 38 package-level variables of mxj that are option state - what the setters write; other package-level variables a tree may have (tables, caches, pools, counters, lazily set flags) are not compared, their effect is judged by behaviour; transitions = every option setter in every argument form (explicit true/false, argument-less, attribute prefixes {-,\"\",@,_}, PrependAttrWithHyphen, key prefixes {#,_,$}, field separators, array sizes, skip function nil/f, empty-element syntax, JsonUseNumber) - 63 transitions; all histories of length <= D from the initial state with state de-duplication (two histories are merged only if they agree on the option vector AND on every other non-container package-level variable the tree under test has - a flag or remembered value a setter keeps beside its option gives the state a different future, so such states are kept apart, up to 40000 of them). On every transition: the reference option machine predicts the whole next state vector (documented semantics incl. toggles, 'disable' for white space, 'reset' for the field separator, the coupling of the two escaping switches), explicit forms are idempotent (the setter's global writes are logged against its documented write set, informational). On every state: no family (decode, encode or query calls - no setter) changes the option vector; 12 API families (11 + BeautifyXml) behave exactly as in the canonical state that agrees on the family's documented dependency set (non-interference), and after restoring defaults the state vector and the behaviour battery equal the fresh-process baseline; both again with use interleaved (all 12 families are used after every setter, not only at the end: what a decode, encode or query made under an earlier setting leaves behind must not show later) - for the representative history of every state and for EVERY history of 2 (thorough: 3) setters, merged or not. Documented behavioural effect of XmlGoEmptyElemSyntax ('<tag ...></tag> rather than <tag .../>'): for every value template with <= 4/5 nodes over {a,-x,#text} with empty containers, empty strings and nulls and 6 encoders, the output under the switch has the same token stream as the default output and contains no '/>'. Documented behavioural effect of the attribute prefix and the global key prefix (they only name keys inside the Map): for every document with <= 2 elements and <= 2 decorations (attributes whose own names begin with prefix characters: _id, __v, _; text, comment, PI), decode + encode under prefixes {@, _, __, attr_, -_, the two-byte character U+00A7, @ followed by U+00B5} / key prefixes {_, $, %} gives the same XML as under the defaults. Cold starts: every history of length 1 (thorough: <= 2) is also run as the first thing a fresh process does (a child process of the worker): it applies the history, uses all 12 families, restores the defaults and uses them again - behaviour after the restore must equal the fresh baseline and behaviour in the state must equal what the long-lived worker shows in that state (whatever is initialised lazily must not freeze the options in force at first use). non-trivial = distinct states."
	c.S.Assumptions = []string{"key prefixes are single punctuation characters (as the property states)", "the fresh-process baseline is recorded in the worker before any setter is called"}
	depth := 4
	if c.Thorough {
		depth = 6
	}
	type node struct {
		hist  []int
		model optModel
	}
	seen := map[string]bool{e.base.key(): true}
	resetOptions()
	baseHidden := hiddenVector()
	hiddenStates := 0
	frontier := []node{{nil, e.base.clone()}}
	stateIdx := 0
	own := func(i int) bool { return i%c.NShards == c.Shard }
	if own(stateIdx) {
		c.S.States++
		e.checkState(nil, e.base)
	}
	for d := 0; d < depth && !c.Capped(); d++ {
		var next []node
		for pi, p := range frontier {
			for t := range e.trans {
				// every shard expands the whole graph (cheap); checks are split by ownership
				report := own(pi*len(e.trans) + t)
				nm := e.step(p.hist, p.model, t, report)
				if report {
					c.S.Evaluations++
					c.S.Schedules++
				}
				k := nm.key()
				if e.hidden != baseHidden {
					// the tree keeps state beside the option vector: histories that differ in it are distinct states
					if hiddenStates < 40000 {
						k += "|hidden:" + e.hidden
						if !seen[k] {
							hiddenStates++
						}
					} else {
						c.Count("hidden_state_cap_reached_states_merged_on_option_vector_only", 1)
					}
				}
				if !seen[k] {
					seen[k] = true
					stateIdx++
					h := append(append([]int{}, p.hist...), t)
					next = append(next, node{h, nm})
					if own(stateIdx) {
						c.Outcome(k)
						c.S.States++
						c.S.Nontrivial++
						e.checkState(h, nm)
						if e.samples < 4 {
							c.Sample(map[string]interface{}{"history": e.names(h), "state_differs_from_default_in": diffModels(e.base, nm)})
							e.samples++
						}
					}
				}
			}
			if c.Capped() {
				break
			}
		}
		frontier = next
		c.S.BoundCompleted = d + 1
	}
	// interleaved use on EVERY history of 2 (thorough: 3) setters, whether or not the search merged the state it
	// leads to into one reached earlier: a state equal to an earlier one in every variable can still differ in
	// what the calls made on the way have left in a cache
	{
		ii := 0
		n := len(e.trans)
		for t1 := 0; t1 < n; t1++ {
			m1 := e.base.clone()
			e.trans[t1].model(m1)
			for t2 := 0; t2 < n; t2++ {
				m2 := m1.clone()
				e.trans[t2].model(m2)
				if own(ii) && !c.Capped() {
					c.S.Schedules++
					c.Count("interleaved_use_histories", 1)
					e.interleaved([]int{t1, t2}, m2)
				}
				ii++
				if c.Thorough {
					for t3 := 0; t3 < n; t3++ {
						if own(ii) && !c.Capped() {
							m3 := m2.clone()
							e.trans[t3].model(m3)
							c.S.Schedules++
							c.Count("interleaved_use_histories", 1)
							e.interleaved([]int{t1, t2, t3}, m3)
						}
						ii++
					}
				}
			}
		}
	}
	// documented behavioural effect of the empty-element syntax switch, on every small value
	resetOptions()
	ng := 4
	if c.Thorough {
		ng = 5
	}
	gv := newGen(GenP{Keys: []string{"a", "-x", "#text"}, MaxList: 2, MaxKeys: 3, EmptyList: true, EmptyMap: true, ListInList: false, Leaves: []interface{}{"s", "", nullLeaf{}}})
	gv.values(ng, func(t *T) {
		probe := inst(t, nil)
		if !c03InDomain(probe, true) || c03HasNullAttr(probe) {
			return
		}
		for _, enc := range []string{"Map.Xml", "Map.XmlIndent", "AnyXml", "AnyXmlIndent", "MapSeq.Xml", "MapSeq.XmlIndent"} {
			if !c.Mine() {
				continue
			}
			c.S.Schedules++
			c.Count("empty_element_syntax_cases", 1)
			c18EmptyElem(c, inst(t, nil), enc)
		}
	})
	resetOptions()
	// the prefixes are internal: round trip under every prefix = round trip under the default one
	for nn := 1; nn <= 2; nn++ {
		for _, base := range baseTrees(nn, "r", []string{"a", "b"}, 2) {
			var docs []*XElem
			var ds []Deco
			for i := range base.elems() {
				for _, an := range []string{"x", "_id", "__v", "_", "a-b", "n:_x"} {
					ds = append(ds, Deco{Kind: 'a', El: i, Name: an, Value: "v"})
				}
				ds = append(ds, Deco{Kind: 't', El: i, Pos: 0, Value: "t"}, Deco{Kind: 'c', El: i, Pos: 0, Value: " c "}, Deco{Kind: 'p', El: i, Pos: 0, Value: "do it"})
			}
			for i := range ds {
				if doc, ok := applyDecos(base, []Deco{ds[i]}); ok {
					docs = append(docs, doc)
				}
				for j := i + 1; j < len(ds); j++ {
					if doc, ok := applyDecos(base, []Deco{ds[i], ds[j]}); ok && c04InDomain(doc) {
						docs = append(docs, doc)
					}
				}
			}
			for _, doc := range docs {
				x := renderDoc(doc, rvDefault)
				for _, p := range []string{"@", "_", "__", "attr_", "-_", "\u00a7", "@\u00b5"} {
					if c.Mine() {
						c.Count("prefix_is_internal_cases", 1)
						c.S.Schedules++
						c18PrefixInternal(c, x, p, false)
					}
				}
				for _, p := range []string{"_", "$", "%", "\u00a7", "\u2020"} {
					if c.Mine() {
						c.Count("prefix_is_internal_cases", 1)
						c.S.Schedules++
						c18PrefixInternal(c, x, p, true)
					}
				}
			}
		}
	}
	resetOptions()
	for _, x := range []string{`<doc><a-b c-d="1">x</a-b><a-b/></doc>`, `<my-ns:tag xmlns:my-ns="urn:x"><my-ns:it-em>1</my-ns:it-em></my-ns:tag>`, `<a-b:c/>`,
		`<doc><a_b>x</a-b></doc>`, `<doc><a-b>x</a_b></doc>`, `<n:a-b xmlns:n="u" k-k="v"><!-- c --><n:c-d>t</n:c-d></n:a-b>`} { // (names that coincide after conversion are collected into a list by the usual convention: not in this family, whose reference only renames)
		if c.Mine() {
			c.Count("snake_case_decoder_cases", 1)
			c.S.Schedules++
			c18Snake(c, x)
		}
	}
	resetOptions()
	// cold starts: every history of length 1 (thorough: <= 2) as the first thing a fresh process does
	ci := 0
	for t1 := range e.trans {
		if own(ci) && !c.Capped() {
			e.coldCheck([]int{t1})
		}
		ci++
		if c.Thorough {
			for t2 := range e.trans {
				if own(ci) && !c.Capped() {
					e.coldCheck([]int{t1, t2})
				}
				ci++
			}
		}
	}
	if c.Shard == 0 {
		c.Count("distinct_states_total", int64(len(seen)))
		c.Count("transitions_per_state", int64(len(e.trans)))
	}
	resetOptions()
	// (the end-of-run state comparison is done for every property in main.go)
}

// ---- cold starts: the history is the very first thing a fresh process does ----

type c18ColdOut struct {
	R1      map[string]string `json:"in_state"`      // behaviour of every family in the state the history reaches
	VecDiff string            `json:"restore_diff"`  // option vector after restoring defaults vs the child's own fresh vector
	R2      map[string]string `json:"after_restore"` // behaviour after restoring defaults
	Err     string            `json:"error,omitempty"`
}

// c18ColdChild runs in a fresh process (harness command "c18cold"): no decoder, encoder or query has run
// before the history is applied, so whatever the library initialises lazily is initialised in that state.
func c18ColdChild(names []string) {
	out := c18ColdOut{R1: map[string]string{}, R2: map[string]string{}}
	trans, fams := c18Transitions(), c18Families()
	base := realVector()
	idx := map[string]int{}
	for i, t := range trans {
		idx[t.name] = i
	}
	for _, n := range names {
		t, ok := idx[n]
		if !ok {
			out.Err = "unknown transition " + n
			break
		}
		trans[t].real()
	}
	if out.Err == "" {
		for _, f := range fams {
			out.R1[f.name] = f.run()
		}
		resetOptions()
		out.VecDiff = diffModels(base, realVector())
		for _, f := range fams {
			out.R2[f.name] = f.run()
		}
	}
	b, _ := json.Marshal(out)
	fmt.Println(string(b))
}

// coldCheck: a fresh process applies the history first, uses every family, restores the defaults and uses
// every family again. Behaviour after the restore must equal this process's fresh baseline, and behaviour
// in the state must equal what this process (which reached the state after a long history) shows there.
func (e *c18Engine) coldCheck(history []int) {
	c := e.c
	names := e.names(history)
	exe, err := os.Executable()
	if err != nil {
		c.Broken("C18 cold start: %v", err)
		return
	}
	arg, _ := json.Marshal(names)
	raw, err := exec.Command(exe, "c18cold", string(arg)).Output()
	var out c18ColdOut
	if err != nil || json.Unmarshal(bytes.TrimSpace(raw), &out) != nil || out.Err != "" {
		c.Broken("C18 cold start child failed: %v %s %s", err, out.Err, short(string(raw), 300))
		return
	}
	c.S.Transitions += int64(2 * len(e.fams))
	c.S.Validated++
	c.Count("cold_start_processes", 1)
	cas := c18Case{History: names, Cold: true}
	if out.VecDiff != "" {
		c.Violate("restore-defaults", "state-restored", "cold-start", cas, nil, fmt.Sprintf("fresh process: history=%v then defaults restored: %s", names, out.VecDiff))
		return
	}
	for _, f := range e.fams {
		if out.R2[f.name] != e.baseBat[f.name] {
			cas.Family = f.name
			c.Violate("restore-defaults", "behaviour-restored", "cold-start", cas, nil,
				fmt.Sprintf("a fresh process applies %v, uses the library, restores the defaults: family %s then behaves differently from a fresh process\n now  : %s\n fresh: %s", names, f.name, short(out.R2[f.name], 600), short(e.baseBat[f.name], 600)))
			return
		}
	}
	e.goTo(history)
	for _, f := range e.fams {
		if got := f.run(); got != out.R1[f.name] {
			cas.Family = f.name
			c.Violate(f.name, "history-independence", "cold-start", cas, nil,
				fmt.Sprintf("option state reached by %v: family %s behaves differently in a process that used the library under the defaults before than in a fresh process\n used before: %s\n fresh      : %s", names, f.name, short(got, 600), short(out.R1[f.name], 600)))
			return
		}
	}
}

// ---- documented behavioural effect: XmlGoEmptyElemSyntax ----
// "<tag ...></tag> rather than <tag .../>": the output under the switch is the default output with every
// self-closing tag written as a start tag and an end tag - the same token stream, no "/>" anywhere.

func c18EmptyElem(c *Ctx, value interface{}, enc string) (nontrivial bool) {
	cas := func() interface{} { return c18Case{Value: json.RawMessage(jsonOf(value)), Encoder: enc} }
	run := func() (out []byte, err error) {
		m := mxj.Map{"r": deepCopy(value)}
		switch enc {
		case "Map.Xml":
			return m.Xml()
		case "Map.XmlIndent":
			return m.XmlIndent("", " ")
		case "AnyXml":
			return mxj.AnyXml(deepCopy(value), "r")
		case "AnyXmlIndent":
			return mxj.AnyXmlIndent(deepCopy(value), "", " ", "r")
		default: // MapSeq.Xml / MapSeq.XmlIndent over the sequence decode of the default encoding
			mxj.XmlDefaultEmptyElemSyntax()
			x, e := m.Xml()
			if e != nil {
				return nil, e
			}
			ms, e := mxj.NewMapXmlSeq(x)
			if e != nil {
				return nil, e
			}
			if enc == "MapSeq.Xml" {
				return ms.Xml()
			}
			return ms.XmlIndent("", " ")
		}
	}
	var out0, out1 []byte
	var err0, err1 error
	st, pan := protect(func() {
		mxj.XmlDefaultEmptyElemSyntax()
		out0, err0 = run()
		mxj.XmlGoEmptyElemSyntax()
		if strings.HasPrefix(enc, "MapSeq") {
			// run() switches to the default syntax for its decode step: switch back for the encode
			m := mxj.Map{"r": deepCopy(value)}
			mxj.XmlDefaultEmptyElemSyntax()
			x, e := m.Xml()
			if e == nil {
				var ms mxj.MapSeq
				if ms, e = mxj.NewMapXmlSeq(x); e == nil {
					mxj.XmlGoEmptyElemSyntax()
					if enc == "MapSeq.Xml" {
						out1, err1 = ms.Xml()
					} else {
						out1, err1 = ms.XmlIndent("", " ")
					}
				}
			}
			if e != nil {
				err1 = e
			}
		} else {
			out1, err1 = run()
		}
		mxj.XmlDefaultEmptyElemSyntax()
	})
	mxj.XmlDefaultEmptyElemSyntax()
	c.S.Transitions += 2
	c.S.Validated++
	if pan {
		c.Violate("XmlGoEmptyElemSyntax", "panic", "empty-element-syntax", cas, nil, st)
		return
	}
	if (err0 != nil) != (err1 != nil) {
		c.Violate("XmlGoEmptyElemSyntax", "documented-behaviour", "empty-element-syntax", cas, nil, fmt.Sprintf("%s of %s: error-ness differs between the two syntaxes: %v / %v", enc, jsonOf(value), err0, err1))
		return
	}
	if err0 != nil {
		return
	}
	t0, e0 := rawTokens(out0, true, false)
	t1, e1 := rawTokens(out1, true, false)
	if e0 != nil {
		return // the default output itself is judged by C03
	}
	if e1 != nil || !eqStrings(t0, t1) || bytes.Contains(out1, []byte("/>")) {
		c.Violate("XmlGoEmptyElemSyntax", "documented-behaviour", "empty-element-syntax", cas, nil,
			fmt.Sprintf("%s of %s\n default syntax: %q\n go syntax     : %q (tokenizer: %v)\n documented: <tag ...></tag> rather than <tag .../> - the same elements, attributes and text", enc, jsonOf(value), out0, out1, e1))
		return true
	}
	return bytes.Contains(out0, []byte("/>"))
}

// ---- documented behavioural effect: the prefixes are internal ----
// SetAttrPrefix / SetGlobalKeyMapPrefix choose how attribute and special keys are spelled inside the Map.
// Decoding a document and encoding the Map again under one and the same prefix therefore gives the same XML
// whatever the prefix is (as long as no element name starts with it).

func c18PrefixInternal(c *Ctx, xmlText, prefix string, keyPfx bool) (nontrivial bool) {
	cas := func() interface{} { return c18Case{Xml: xmlText, Prefix: prefix, KeyPfx: keyPfx} }
	trip := func() (string, error) {
		if keyPfx {
			ms, err := mxj.NewMapXmlSeq([]byte(xmlText))
			if err != nil {
				return "", err
			}
			a, err := ms.Xml()
			if err != nil {
				return "", err
			}
			b, err := ms.XmlIndent("", " ")
			return string(a) + "\n" + string(b), err
		}
		m, err := mxj.NewMapXml([]byte(xmlText))
		if err != nil {
			return "", err
		}
		a, err := m.Xml()
		if err != nil {
			return "", err
		}
		b, err := m.XmlIndent("", " ")
		return string(a) + "\n" + string(b), err
	}
	var base, got, keyDiff string
	var e0, e1 error
	st, pan := protect(func() {
		resetOptions()
		mxj.XMLEscapeChars(true)
		base, e0 = trip()
		if keyPfx {
			mxj.SetGlobalKeyMapPrefix(prefix)
			curKeyPrefix = prefix
		} else {
			mxj.SetAttrPrefix(prefix)
		}
		got, e1 = trip()
		if keyPfx {
			// explicit value twice = once; and the default prefix brings every key name back
			mxj.SetGlobalKeyMapPrefix(prefix)
			v2 := realVector()
			mxj.SetGlobalKeyMapPrefix("#")
			curKeyPrefix = "#"
			v3 := realVector()
			for _, kv := range keyVars {
				want := strings.Replace(defaultKeyNames[kv], "#", prefix, 1)
				if v2.s(kv) != want && keyDiff == "" {
					keyDiff = fmt.Sprintf("after SetGlobalKeyMapPrefix(%q) twice %s is %q, expected %q", prefix, kv, v2.s(kv), want)
				}
				if v3.s(kv) != defaultKeyNames[kv] && keyDiff == "" {
					keyDiff = fmt.Sprintf("after SetGlobalKeyMapPrefix(%q) and then SetGlobalKeyMapPrefix(\"#\") %s is %q, expected %q", prefix, kv, v3.s(kv), defaultKeyNames[kv])
				}
			}
		}
	})
	resetOptions()
	if keyDiff != "" {
		c.Violate("SetGlobalKeyMapPrefix", "state-restored", "prefix-is-internal", cas, nil, keyDiff)
		return true
	}
	c.S.Transitions += 2
	c.S.Validated++
	api := "SetAttrPrefix"
	if keyPfx {
		api = "SetGlobalKeyMapPrefix"
	}
	if pan {
		c.Violate(api, "panic", "prefix-is-internal", cas, nil, st)
		return
	}
	if e0 != nil {
		return
	}
	if e1 != nil || got != base {
		c.Violate(api, "documented-behaviour", "prefix-is-internal", cas, nil,
			fmt.Sprintf("xml=%q decoded and encoded again\n under the default prefix: %q\n under prefix %q      : %q (err=%v)\n the prefix only names keys inside the Map", xmlText, base, prefix, got, e1))
		return true
	}
	return true
}

var defaultKeyNames = map[string]string{"textK": "#text", "seqK": "#seq", "commentK": "#comment", "attrK": "#attr", "directiveK": "#directive", "procinstK": "#procinst", "targetK": "#target", "instK": "#inst"}

// c18Snake: CoerceKeysToSnakeCase is documented as "all key values will be converted to snake case" for the Map
// and the sequence decoder alike: the document is accepted exactly when it is accepted without the option, and
// the result is the same Map with every '-' in a key (after the attribute prefix) turned into '_'.
func c18Snake(c *Ctx, xmlText string) (nontrivial bool) {
	cas := func() interface{} { return c18Case{Snake: xmlText} }
	var fold func(v interface{}) interface{}
	fold = func(v interface{}) interface{} {
		switch t := v.(type) {
		case map[string]interface{}:
			m := make(map[string]interface{}, len(t))
			for k, e := range t {
				fk := strings.Replace(k, "-", "_", -1)
				if strings.HasPrefix(k, "-") {
					fk = "-" + strings.Replace(k[1:], "-", "_", -1) // the attribute prefix is not part of the name
				}
				m[fk] = fold(e)
			}
			return m
		case []interface{}:
			l := make([]interface{}, len(t))
			for i, e := range t {
				l[i] = fold(e)
			}
			return l
		}
		return v
	}
	for _, dec := range []string{"NewMapXml", "NewMapXmlSeq"} {
		var m0, m1 map[string]interface{}
		var e0, e1 error
		st, pan := protect(func() {
			resetOptions()
			decode := func() (map[string]interface{}, error) {
				if dec == "NewMapXml" {
					m, err := mxj.NewMapXml([]byte(xmlText))
					return m, err
				}
				m, err := mxj.NewMapXmlSeq([]byte(xmlText))
				return m, err
			}
			m0, e0 = decode()
			mxj.CoerceKeysToSnakeCase(true)
			m1, e1 = decode()
		})
		resetOptions()
		c.S.Transitions += 2
		c.S.Validated++
		if pan {
			c.Violate("CoerceKeysToSnakeCase", "panic", "snake-case-decoders", cas, nil, st)
			return
		}
		if (e0 == nil) != (e1 == nil) {
			c.Violate("CoerceKeysToSnakeCase", "documented-behaviour", "snake-case-decoders", cas, nil,
				fmt.Sprintf("%s(%q): without the option err=%v, with it err=%v - the option renames keys, it does not change which documents are accepted", dec, xmlText, e0, e1))
			return true
		}
		if e0 == nil && !deepEq(fold(m0), m1) {
			c.Violate("CoerceKeysToSnakeCase", "documented-behaviour", "snake-case-decoders", cas, nil,
				fmt.Sprintf("%s(%q): without the option %s, with it %s, expected %s", dec, xmlText, dump(m0), dump(m1), dump(fold(m0))))
			return true
		}
	}
	return true
}

func c18Replay(c *Ctx, k c18Case) {
	if k.Snake != "" {
		c18Snake(c, k.Snake)
		return
	}
	if k.Xml != "" {
		c18PrefixInternal(c, k.Xml, k.Prefix, k.KeyPfx)
		return
	}
	if k.Encoder != "" {
		c18EmptyElem(c, fromJSON(string(k.Value)), k.Encoder)
		return
	}
	e := &c18Engine{c: c, trans: c18Transitions(), fams: c18Families(), canon: map[string]string{}, baseBat: map[string]string{}}
	e.base = realVector()
	for _, f := range e.fams {
		e.baseBat[f.name] = f.run()
	}
	idx := map[string]int{}
	for i, t := range e.trans {
		idx[t.name] = i
	}
	if k.Cold {
		var hist []int
		for _, n := range k.History {
			hist = append(hist, idx[n])
		}
		e.coldCheck(hist)
		resetOptions()
		return
	}
	var hist []int
	m := e.base.clone()
	for i, n := range k.History {
		t, ok := idx[n]
		if !ok {
			fmt.Println("unknown transition", n)
			return
		}
		m = e.step(hist, m, t, true)
		hist = append(hist, t)
		_ = i
	}
	e.checkState(hist, m)
	resetOptions()
}
