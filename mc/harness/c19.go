package main

import (
	"bytes"
	"encoding/json"
	"encoding/xml"
	"fmt"
	"io"
	"os"
	"path/filepath"
	"strconv"
	"strings"

	mxj "github.com/clbanning/mxj/v2"
	rt "github.com/clbanning/mxj/v2/zzverifrt"
)

// C19 — Maps written to files, gob or Copy are read back equal.

type c19Case struct {
	Kind   string            `json:"kind"` // file | gob | copy | missing
	Format string            `json:"format,omitempty"`
	Docs   []string          `json:"sources,omitempty"` // XML texts or JSON texts the Maps are built from
	Indent [2]string         `json:"prefix_indent,omitempty"`
	Safe   bool              `json:"safe,omitempty"`
	Fault  string            `json:"fault,omitempty"` // "", truncate, corrupt
	Offset int               `json:"offset,omitempty"`
	Byte   int               `json:"byte,omitempty"`
	Raw    bool              `json:"raw_reader,omitempty"`
	Maps   []json.RawMessage `json:"maps,omitempty"`
}

func init() {
	register(&Property{ID: "C19", Run: c19Run, Replay: func(c *Ctx, cas json.RawMessage, ch []int) {
		var k c19Case
		json.Unmarshal(cas, &k)
		resetOptions()
		mxj.XMLEscapeChars(true)
		switch k.Kind {
		case "file", "missing":
			c19File(c, k)
		case "gob", "copy":
			var ms []map[string]interface{}
			for _, r := range k.Maps {
				ms = append(ms, fromJSON(string(r)).(map[string]interface{}))
			}
			c19GobCopy(c, ms)
		case "copy-usenumber":
			c19CopyUseNumber(c, k.Docs[0])
		case "latin1-file":
			c19Latin1File(c, k.Docs, k.Raw)
		}
		resetOptions()
	}})
}

func c19Path(name string) string {
	return filepath.Join(c16Dir(), fmt.Sprintf("c19-%d-%s", os.Getpid(), name))
}

func c19Build(format string, docs []string) mxj.Maps {
	var ms mxj.Maps
	for _, d := range docs {
		var m mxj.Map
		var err error
		if format == "xml" {
			m, err = mxj.NewMapXml([]byte(d))
		} else {
			m, err = mxj.NewMapJson([]byte(d))
		}
		if err != nil {
			panic("c19: source does not decode: " + d)
		}
		ms = append(ms, m)
	}
	return ms
}

// eqNilEmpty: deep equality where nil and empty containers are equal (gob cannot tell them apart).
func eqNilEmpty(a, b interface{}) bool {
	switch x := a.(type) {
	case map[string]interface{}:
		y, ok := b.(map[string]interface{})
		if !ok {
			if ym, ok2 := b.(mxj.Map); ok2 {
				y, ok = ym, true
			}
		}
		if !ok && b != nil {
			return false
		}
		if len(x) != len(y) {
			return false
		}
		for k, v := range x {
			w, ok := y[k]
			if !ok || !eqNilEmpty(v, w) {
				return false
			}
		}
		return true
	case []interface{}:
		y, ok := b.([]interface{})
		if !ok && b != nil {
			return false
		}
		if len(x) != len(y) {
			return false
		}
		for i := range x {
			if !eqNilEmpty(x[i], y[i]) {
				return false
			}
		}
		return true
	case nil:
		switch y := b.(type) {
		case nil:
			return true
		case map[string]interface{}:
			return len(y) == 0
		case []interface{}:
			return len(y) == 0
		}
		return false
	}
	return deepEq(a, b)
}

// refXmlSequence: reference sequential reader over XML bytes (encoding/xml tokens + offsets).
// Returns the document slices found and whether a tokenizer error ended the scan.
func refXmlSequence(b []byte) (docs [][]byte, failed bool) {
	d := xml.NewDecoder(bytes.NewReader(b))
	depth := 0
	start := 0
	for {
		before := int(d.InputOffset())
		t, err := d.Token()
		if err == io.EOF && depth == 0 {
			return docs, false
		}
		if err != nil {
			return docs, true
		}
		switch t.(type) {
		case xml.StartElement:
			if depth == 0 {
				start = before
			}
			depth++
		case xml.EndElement:
			depth--
			if depth == 0 {
				docs = append(docs, b[start:int(d.InputOffset())])
			}
		}
	}
}

func c19File(c *Ctx, k c19Case) (nontrivial bool) {
	cas := func() interface{} { return k }
	api := map[string]string{"xml": "NewMapsFromXmlFile", "json": "NewMapsFromJsonFile"}[k.Format]
	if k.Raw {
		api += "Raw"
	}
	shape := "intact"
	if k.Fault != "" {
		shape = k.Fault
	}
	if k.Kind == "missing" {
		shape = "missing-or-directory"
		for _, p := range []string{c19Path("does-not-exist"), c16Dir()} {
			var n int
			var err error
			st, pan := protect(func() {
				if k.Format == "xml" {
					m, e := mxj.NewMapsFromXmlFile(p)
					n, err = len(m), e
					r, e2 := mxj.NewMapsFromXmlFileRaw(p)
					if e == nil || e2 == nil || len(r) > 0 {
						err = nil
					}
				} else {
					m, e := mxj.NewMapsFromJsonFile(p)
					n, err = len(m), e
					r, e2 := mxj.NewMapsFromJsonFileRaw(p)
					if e == nil || e2 == nil || len(r) > 0 {
						err = nil
					}
				}
			})
			c.S.Transitions += 2
			if pan {
				c.Violate(api, "panic", shape, cas, nil, st)
			} else if err == nil || n != 0 {
				c.Violate(api, "unreadable-file-accepted", shape, cas, nil, fmt.Sprintf("path=%s: %d maps, err=%v", p, n, err))
			}
		}
		return true
	}
	ms := c19Build(k.Format, k.Docs)
	name := "f." + k.Format
	path := c19Path(name)
	defer os.Remove(path)
	var werr error
	// the target already exists and is longer than what will be written (the writers must truncate)
	os.WriteFile(path, bytes.Repeat([]byte("<old/>{\"old\":1}\n"), 200), 0o644)
	st, pan := protect(func() {
		switch {
		case k.Format == "xml" && k.Indent == [2]string{}:
			werr = ms.XmlFile(path)
		case k.Format == "xml":
			werr = ms.XmlFileIndent(path, k.Indent[0], k.Indent[1])
		case k.Indent == [2]string{}:
			werr = ms.JsonFile(path, k.Safe)
		default:
			werr = ms.JsonFileIndent(path, k.Indent[0], k.Indent[1], k.Safe)
		}
	})
	c.S.Transitions++
	if pan || werr != nil {
		c.Violate(api, "write-failed", shape, cas, nil, fmt.Sprintf("%v %s", werr, st))
		return
	}
	content, _ := os.ReadFile(path)
	// expected Maps and the document texts / boundaries in the file
	var expected []map[string]interface{}
	var texts [][]byte
	for _, m := range ms {
		var b []byte
		switch {
		case k.Format == "xml" && k.Indent == [2]string{}:
			b, _ = m.Xml()
		case k.Format == "xml":
			b, _ = m.XmlIndent(k.Indent[0], k.Indent[1])
		case k.Indent == [2]string{}:
			b, _ = m.Json(k.Safe)
		default:
			b, _ = m.JsonIndent(k.Indent[0], k.Indent[1], k.Safe)
		}
		texts = append(texts, b)
		if k.Format == "xml" {
			e, err := mxj.NewMapXml(b)
			if err != nil {
				// the encoder produced something its own decoder rejects: the file cannot be read back
				c.Violate(api, "own-encoding-decodes", shape, cas, nil, fmt.Sprintf("the encoding of Map %d (prefix %q, indent %q) does not decode: %q (%v)", len(texts), k.Indent[0], k.Indent[1], b, err))
				return
			}
			expected = append(expected, e)
		} else {
			expected = append(expected, m)
		}
	}
	var ends []int
	off := 0
	for i, t := range texts {
		j := bytes.Index(content[off:], t)
		if j < 0 {
			c.Violate(api, "file-is-concatenation", shape, cas, nil, fmt.Sprintf("file=%q does not contain encoding %d %q after offset %d", content, i, t, off))
			return
		}
		off += j + len(t)
		ends = append(ends, off)
	}
	// apply the fault
	data := content
	switch k.Fault {
	case "truncate":
		if k.Offset > len(content) {
			return
		}
		data = content[:k.Offset]
	case "corrupt":
		if k.Offset >= len(content) || content[k.Offset] == byte(k.Byte) {
			return
		}
		data = append([]byte(nil), content...)
		data[k.Offset] = byte(k.Byte)
	}
	if k.Fault != "" {
		if err := os.WriteFile(path, data, 0o644); err != nil {
			c.Broken("C19: %v", err)
			return
		}
	}
	var got []map[string]interface{}
	var raws [][]byte
	var err error
	st, pan = protect(func() {
		switch {
		case k.Format == "xml" && !k.Raw:
			r, e := mxj.NewMapsFromXmlFile(path)
			for _, m := range r {
				got = append(got, m)
			}
			err = e
		case k.Format == "xml":
			r, e := mxj.NewMapsFromXmlFileRaw(path)
			for _, m := range r {
				got = append(got, m.M)
				raws = append(raws, m.R)
			}
			err = e
		case !k.Raw:
			r, e := mxj.NewMapsFromJsonFile(path)
			for _, m := range r {
				got = append(got, m)
			}
			err = e
		default:
			r, e := mxj.NewMapsFromJsonFileRaw(path)
			for _, m := range r {
				got = append(got, m.M)
				raws = append(raws, m.R)
			}
			err = e
		}
	})
	c.S.Transitions++
	c.S.Validated++
	c.S.Schedules++
	detail := func(what string) string {
		var g []string
		for _, m := range got {
			g = append(g, dump(m))
		}
		return fmt.Sprintf("%s\n file content=%q (fault=%s offset=%d byte=%#x)\n read back %d maps %v err=%v", what, data, k.Fault, k.Offset, k.Byte, len(got), g, err)
	}
	if pan {
		c.Violate(api, "panic", shape, cas, nil, detail(st))
		return
	}
	c.Outcome(fmt.Sprintf("%d|%v", len(got), err != nil))
	// number of documents wholly before the fault
	whole := len(texts)
	if k.Fault != "" {
		whole = 0
		for _, e := range ends {
			if e <= k.Offset {
				whole++
			}
		}
	}
	if len(got) < whole {
		c.Violate(api, "maps-read-so-far", shape, cas, nil, detail(fmt.Sprintf("%d documents lie wholly before the fault but only %d Maps were returned", whole, len(got))))
		return true
	}
	for i := 0; i < whole; i++ {
		if !deepEq(got[i], expected[i]) {
			c.Violate(api, "read-back-equal", shape, cas, nil, detail(fmt.Sprintf("Map %d: expected %s", i+1, dump(expected[i]))))
			return true
		}
		if k.Raw {
			want := texts[i]
			if !bytes.Contains(raws[i], want) {
				c.Violate(api, "raw-contains-document", shape, cas, nil, detail(fmt.Sprintf("raw %d = %q does not contain %q", i+1, raws[i], want)))
				return true
			}
		}
	}
	switch k.Fault {
	case "":
		if err != nil || len(got) != len(texts) {
			c.Violate(api, "read-back-equal", shape, cas, nil, detail(fmt.Sprintf("expected %d Maps and no error", len(texts))))
		}
	case "truncate":
		// the remainder after the last whole document: blank => clean end, otherwise an error with exactly the whole documents
		startRest := 0
		if whole > 0 {
			startRest = ends[whole-1]
		}
		rest := strings.TrimSpace(string(data[startRest:]))
		if rest == "" {
			if err != nil || len(got) != whole {
				c.Violate(api, "truncated-at-boundary", shape, cas, nil, detail(fmt.Sprintf("the file ends after document %d: expected %d Maps and no error", whole, whole)))
			}
		} else if err == nil || len(got) != whole {
			c.Violate(api, "truncated-inside-document", shape, cas, nil, detail(fmt.Sprintf("document %d is cut: expected an error together with %d Maps", whole+1, whole)))
		}
	case "corrupt":
		if k.Format == "json" && k.Byte == '}' && c19TopLevel(content, k.Offset) {
			// a closing brace where no object is open: the file is malformed, whatever follows
			if err == nil || len(got) != whole {
				c.Violate(api, "malformed-file-yields-error", shape, cas, nil, detail(fmt.Sprintf("a stray '}' at top level after document %d: expected an error together with %d Maps", whole, whole)))
			}
		}
		if k.Format == "json" && k.Byte != '{' && k.Byte != '}' && c19TopLevel(content, k.Offset) && strings.ContainsRune(" \t\r\n", rune(content[k.Offset])) {
			// a byte of the white space between two documents was overwritten; no document was touched. The readers
			// scan for the next '{' and skip what lies between documents - then every document is still read; or
			// they report the junk. Losing the documents behind it without an error is neither.
			if err == nil && len(got) != len(texts) {
				c.Violate(api, "documents-behind-junk-lost", shape, cas, nil, detail(fmt.Sprintf("white space between documents was overwritten with %q: expected all %d Maps, or an error", k.Byte, len(texts))))
			}
		}
		if k.Format == "xml" {
			docs, failed := refXmlSequence(data)
			if failed != (err != nil) || len(docs) != len(got) {
				c.Violate(api, "agrees-with-tokenizer", shape, cas, nil, detail(fmt.Sprintf("encoding/xml finds %d complete documents, error=%v", len(docs), failed)))
			}
		}
	}
	return true
}

func c19GobCopy(c *Ctx, ms []map[string]interface{}) {
	cas := func() interface{} {
		k := c19Case{Kind: "gob"}
		for _, m := range ms {
			k.Maps = append(k.Maps, json.RawMessage(jsonOf(m)))
		}
		return k
	}
	// encode all, then decode all: an encoder that reuses a buffer would corrupt earlier results
	var gobs [][]byte
	for _, m := range ms {
		var g []byte
		var err error
		st, pan := protect(func() { g, err = mxj.Map(m).Gob() })
		c.S.Transitions++
		if pan || err != nil {
			c.Violate("Map.Gob", "error", "gob", cas, nil, fmt.Sprintf("map=%s %v %s", dump(m), err, st))
			return
		}
		gobs = append(gobs, g)
	}
	for i, m := range ms {
		var back mxj.Map
		var err error
		st, pan := protect(func() { back, err = mxj.NewMapGob(gobs[i]) })
		c.S.Transitions++
		c.S.Validated++
		if pan || err != nil || !eqNilEmpty(m, map[string]interface{}(back)) {
			c.Violate("NewMapGob", "gob-round-trip", "gob", cas, nil, fmt.Sprintf("map %d=%s\n decoded (after all %d Maps were encoded)=%s err=%v %s", i+1, dump(m), len(ms), dump(back), err, st))
			return
		}
	}
	// Copy: deep-equal and no shared mutable structure
	for _, m := range ms {
		var cp mxj.Map
		var err error
		before := dump(m)
		st, pan := protect(func() { cp, err = mxj.Map(m).Copy() })
		c.S.Transitions++
		c.S.Validated++
		if pan || err != nil || !deepEq(m, map[string]interface{}(cp)) || dump(m) != before {
			c.Violate("Map.Copy", "copy-equal", "copy", cas, nil, fmt.Sprintf("map=%s copy=%s err=%v %s", before, dump(cp), err, st))
			return
		}
		a, b := map[uintptr]bool{}, map[uintptr]bool{}
		rt.Containers(m, a)
		rt.Containers(map[string]interface{}(cp), b)
		for p := range a {
			if b[p] {
				c.Violate("Map.Copy", "copy-shares-structure", "copy", cas, nil, fmt.Sprintf("map=%s: the copy shares a map or list with the original", before))
				return
			}
		}
	}
}

// c19Latin1File: a file whose documents declare an 8-bit encoding, read with XmlCharsetReader set to a Latin-1
// reader that asks its source for whole buffers (as real charset packages do): the file readers return one Map
// per document, each equal to the direct decode of that document - nothing of a later document is swallowed.
func c19Latin1File(c *Ctx, docs []string, raw bool) {
	cas := func() interface{} { return c19Case{Kind: "latin1-file", Docs: docs, Raw: raw} }
	mxj.XmlCharsetReader = func(cs string, in io.Reader) (io.Reader, error) { return &latin1Reader{src: in}, nil }
	defer func() { mxj.XmlCharsetReader = nil }()
	var want []string
	for _, d := range docs {
		m, err := mxj.NewMapXml([]byte(d))
		if err != nil {
			c.Broken("C19: latin-1 document does not decode directly: %v", err)
			return
		}
		want = append(want, dump(map[string]interface{}(m)))
	}
	for _, sep := range []string{"", "\n"} {
		fn := c19Path("latin1.xml")
		defer os.Remove(fn)
		if err := os.WriteFile(fn, []byte(strings.Join(docs, sep)), 0600); err != nil {
			c.Broken("C19: %v", err)
			return
		}
		var got []string
		var err error
		api := "NewMapsFromXmlFile"
		st, pan := protect(func() {
			if raw {
				api = "NewMapsFromXmlFileRaw"
				var ms []mxj.MapRaw
				ms, err = mxj.NewMapsFromXmlFileRaw(fn)
				for _, m := range ms {
					got = append(got, dump(map[string]interface{}(m.M)))
				}
			} else {
				var ms mxj.Maps
				ms, err = mxj.NewMapsFromXmlFile(fn)
				for _, m := range ms {
					got = append(got, dump(map[string]interface{}(m)))
				}
			}
		})
		c.S.Transitions++
		c.S.Validated++
		if pan || err != nil || !eqStrings(got, want) {
			c.Violate(api, "read-back-equal", "charset-reader", cas, nil, fmt.Sprintf("file of %d ISO-8859-1 documents (separator %q) read with a Latin-1 XmlCharsetReader: got %d Maps %v err=%v, want %v %s", len(docs), sep, len(got), got, err, want, st))
			return
		}
	}
}

// c19CopyUseNumber: a Map decoded under JsonUseNumber holds json.Number values; its Copy, made under the same
// setting, is deeply equal to it (same type, same digits), and shares no container with it.
func c19CopyUseNumber(c *Ctx, doc string) {
	cas := func() interface{} { return c19Case{Kind: "copy-usenumber", Docs: []string{doc}} }
	mxj.JsonUseNumber = true
	defer func() { mxj.JsonUseNumber = false }()
	m, err := mxj.NewMapJson([]byte(doc))
	if err != nil {
		c.Violate("Map.Copy", "copy-equal", "copy", cas, nil, fmt.Sprintf("NewMapJson(%s) under JsonUseNumber: %v", doc, err))
		return
	}
	before := dump(map[string]interface{}(m))
	var cp mxj.Map
	st, pan := protect(func() { cp, err = m.Copy() })
	c.S.Transitions++
	c.S.Validated++
	if pan || err != nil || !deepEq(map[string]interface{}(m), map[string]interface{}(cp)) || dump(map[string]interface{}(m)) != before {
		c.Violate("Map.Copy", "copy-equal", "copy", cas, nil, fmt.Sprintf("under JsonUseNumber: map=%s copy=%s err=%v %s", before, dump(map[string]interface{}(cp)), err, st))
		return
	}
	a, b := map[uintptr]bool{}, map[uintptr]bool{}
	rt.Containers(map[string]interface{}(m), a)
	rt.Containers(map[string]interface{}(cp), b)
	for p := range a {
		if b[p] {
			c.Violate("Map.Copy", "copy-shares-structure", "copy", cas, nil, fmt.Sprintf("map=%s: the copy shares a map or list with the original", before))
			return
		}
	}
}

func c19Run(c *Ctx) {
	mustBeDefault(c)
	mxj.XMLEscapeChars(true)
	c.S.Rule = "cases = (list of 1..3 Maps, writer, indent, reader, fault): XML Maps decoded from 6 documents (attributes, repeated siblings, mixed content, special characters), JSON Maps from 6 objects (strings with braces, quotes, backslashes incl. a trailing escaped backslash, nested lists/maps, non-null scalars), plus lists that hold large documents (0.6 to 9 KB) before and between small ones (intact and 4 truncation offsets); writers XmlFile, XmlFileIndent, JsonFile, JsonFileIndent (default and safe) with (prefix, indent) pairs {(\"\", 2 spaces), (\"\", tab), (space, space), (tab, U+3000)}; readers NewMapsFromXmlFile[Raw], NewMapsFromJsonFile[Raw]; faults: none, EVERY truncation offset, EVERY single-byte corruption offset x {X, <, {, }, comma, quote, 0xFF}, missing file, directory. Oracle: intact => same count and order, each Map equal to the decode of its own encoding (JSON: the original), Raw contains the document text; truncation => error together with exactly the Maps wholly before the cut (clean end at a boundary); corruption => the Maps wholly before the fault are returned and equal, and for XML count/error agree with a reference sequential reader built on encoding/xml; unreadable file => error. Files of 1..3 documents of which some declare ISO-8859-1, read with a Latin-1 XmlCharsetReader that asks for whole buffers: one Map per document, equal to its direct decode. Gob: all Maps encoded first, then all decoded (deep-equal up to nil-vs-empty); Copy: deep-equal, receiver unchanged, no shared container identity - also for Maps decoded under JsonUseNumber (json.Number leaves keep type and digits, incl. integers beyond 2^53 and exponents beyond float64). non-trivial = faulted or intact read executed."
	c.S.Assumptions = []string{"gob cannot distinguish nil from empty containers (encoding/gob)", "callers register map[string]interface{} and []interface{} with encoding/gob (its contract)"}
	xmlDocs := []string{`<a/>`, `<a x="1">t</a>`, `<r><b>&lt;1&gt; &amp; "q"</b><a/></r>`, `<r><a>1</a><b/><a>2</a></r>`, `<r y="2">m<c>v</c></r>`, `<doc><k n="1">é</k></doc>`}
	jsonDocs := []string{`{"a":1}`, `{"a":"}{\""}`, `{"a":"x\\"}`, `{"a":{"b":[1,{"c":"]"}]},"d":true}`, `{"k":"<&>","l":["s",2.5,false]}`, `{"e":"\\\"{"}`, `{"p":"C:\\dir\\ "}`, `{}`}
	maxList := 2
	if c.Thorough {
		maxList = 3
	}
	indents := [][2]string{{}, {"", "  "}, {"", "\t"}, {" ", " "}, {"\t", "\u3000"}}
	run := func(k c19Case) {
		if !c.Mine() {
			return
		}
		c.S.States++
		c.S.Evaluations++
		if c19File(c, k) {
			c.S.Nontrivial++
			if c.sampleN < 4 {
				c.Sample(k)
			}
			c.sampleN++
		}
	}
	for _, format := range []string{"xml", "json"} {
		docs := xmlDocs
		if format == "json" {
			docs = jsonDocs
		}
		var lists [][]string
		seqs(docs, maxList, func(s []string) { lists = append(lists, append([]string(nil), s...)) })
		for li, l := range lists {
			for ii, in := range indents {
				if format == "json" && strings.Trim(in[0]+in[1], " \t\n\r") != "" {
					continue // JSON white space is space, tab, CR, LF only: another indent makes the file something else
				}
				for _, safe := range []bool{false, true} {
					if safe && format == "xml" {
						continue
					}
					for _, raw := range []bool{false, true} {
						base := c19Case{Kind: "file", Format: format, Docs: l, Indent: in, Safe: safe, Raw: raw}
						run(base)
						// fault enumeration on a subset of the lists (every list of <= 2 documents in thorough)
						if len(l) > 2 || (!c.Thorough && (li+ii)%3 != 0) {
							continue
						}
						// file length: build once to know it
						n := c19Len(format, l, in, safe)
						for off := 0; off <= n; off++ {
							k := base
							k.Fault, k.Offset = "truncate", off
							run(k)
							if off < n {
								for _, b := range []int{'X', '<', '{', '}', ',', '"', 0xFF} {
									k2 := base
									k2.Fault, k2.Offset, k2.Byte = "corrupt", off, b
									run(k2)
								}
							}
						}
					}
				}
			}
		}
		run(c19Case{Kind: "missing", Format: format})
		// large documents (beyond the readers' initial and grown buffer sizes: ~0.6, 1.1, 2.2, 4.5, 9 KB) before
		// and between small ones
		big := func(n int) string {
			var sb strings.Builder
			if format == "xml" {
				sb.WriteString(`<big n="` + strconv.Itoa(n) + `">`)
				for i := 0; sb.Len() < n; i++ {
					sb.WriteString(`<item i="` + strconv.Itoa(i) + `">value &amp; ` + strconv.Itoa(i*7) + `</item>`)
				}
				sb.WriteString(`</big>`)
			} else {
				sb.WriteString(`{"n":` + strconv.Itoa(n) + `,"items":[`)
				for i := 0; sb.Len() < n; i++ {
					if i > 0 {
						sb.WriteString(",")
					}
					sb.WriteString(`{"i":` + strconv.Itoa(i) + `,"v":"value } \" ` + strconv.Itoa(i*7) + `"}`)
				}
				sb.WriteString(`]}`)
			}
			return sb.String()
		}
		small1, small2 := docs[1], docs[3]
		for _, l := range [][]string{{big(600), small1}, {small1, big(1100), small2}, {big(600), big(1100)}, {big(2200), small1, big(600)}, {big(4500), small1, small2}, {small1, big(9000), big(600), small2}} {
			for _, in := range indents[:2] {
				for _, raw := range []bool{false, true} {
					base := c19Case{Kind: "file", Format: format, Docs: l, Indent: in, Raw: raw}
					run(base)
					n := c19Len(format, l, in, false)
					for _, off := range []int{n - 1, n - 40, n / 2, 700} {
						if off > 0 && off < n {
							k := base
							k.Fault, k.Offset = "truncate", off
							run(k)
						}
					}
				}
			}
		}
	}
	// gob and Copy: every list of 1..3 Maps from the JSON domain (non-null)
	var gm []string
	gm = append(gm, jsonDocs...)
	gm = append(gm, `{}`, `{"a":[]}`, `{"a":{}}`, `{"a":[[1],[]]}`, `{"a":"s","b":1.5,"c":true}`)
	seqs(gm, 3, func(s []string) {
		if !c.Mine() {
			return
		}
		var ms []map[string]interface{}
		for _, d := range s {
			ms = append(ms, fromJSON(d).(map[string]interface{}))
		}
		c.S.States++
		c.S.Evaluations++
		c.S.Schedules++
		c19GobCopy(c, ms)
	})
	// files of documents in a declared 8-bit encoding, read through a buffering XmlCharsetReader
	l1 := []string{"<?xml version=\"1.0\" encoding=\"ISO-8859-1\"?><a>caf\xe9</a>", "<b k=\"v\">x</b>", "<?xml version=\"1.0\" encoding=\"ISO-8859-1\"?><c><d>\xe9t\xe9</d></c>", "<e/>"}
	{
		seqs(l1, 3, func(sq []string) {
			for _, raw := range []bool{false, true} {
				if !c.Mine() {
					continue
				}
				c.S.States++
				c.S.Evaluations++
				c.S.Schedules++
				c19Latin1File(c, append([]string{}, sq...), raw)
			}
		})
	}
	// Copy of Maps decoded under JsonUseNumber (json.Number leaves: digits and type are kept)
	for _, d := range append(append([]string{}, gm...), `{"n":1.10,"big":12345678901234567890,"l":[1,2.50,{"e":1e400}],"s":"1.10"}`, `{"a":{"k":0.1000},"b":[-0,9007199254740993]}`) {
		if !c.Mine() {
			continue
		}
		c.S.States++
		c.S.Evaluations++
		c.S.Schedules++
		c19CopyUseNumber(c, d)
	}
	resetOptions()
}

func c19Len(format string, docs []string, in [2]string, safe bool) int {
	ms := c19Build(format, docs)
	var s string
	switch {
	case format == "xml" && in == [2]string{}:
		s, _ = ms.XmlString()
	case format == "xml":
		s, _ = ms.XmlStringIndent(in[0], in[1])
	case in == [2]string{}:
		s, _ = ms.JsonString(safe)
	default:
		s, _ = ms.JsonStringIndent(in[0], in[1], safe)
	}
	return len(s)
}

// c19TopLevel: in the intact JSON file, is offset off outside every object and outside every string
// (white space between documents, or the opening brace of a document)?
func c19TopLevel(intact []byte, off int) bool {
	depth, inStr, esc := 0, false, false
	for i, b := range intact {
		if i == off {
			return depth == 0 && !inStr
		}
		if inStr {
			switch {
			case esc:
				esc = false
			case b == '\\':
				esc = true
			case b == '"':
				inStr = false
			}
			continue
		}
		switch b {
		case '"':
			inStr = true
		case '{':
			depth++
		case '}':
			depth--
		}
	}
	return false
}
