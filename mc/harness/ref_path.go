package main

import (
	"sort"
	"strconv"
	"strings"
)

// Reference semantics of dot / wildcard / indexed paths, written from the documentation.

func sortedKeys(m map[string]interface{}) []string {
	ks := make([]string, 0, len(m))
	for k := range m {
		ks = append(ks, k)
	}
	sort.Strings(ks)
	return ks
}

// refFinal: a final list is returned as its members.
func refFinal(v interface{}, rec bool, out *[]interface{}) {
	if l, ok := v.([]interface{}); ok {
		for _, e := range l {
			if _, isList := e.([]interface{}); isList && rec {
				refFinal(e, rec, out)
			} else {
				*out = append(*out, e)
			}
		}
		return
	}
	*out = append(*out, v)
}

// refPlain evaluates a path of plain keys and wildcards. rec selects the recursive
// reading of lists nested directly inside lists (ambiguity set).
func refPlain(v interface{}, steps []string, rec bool, out *[]interface{}) {
	if len(steps) == 0 {
		refFinal(v, rec, out)
		return
	}
	s, rest := steps[0], steps[1:]
	var visit func(n interface{}, fromList bool)
	visit = func(n interface{}, fromList bool) {
		switch m := n.(type) {
		case map[string]interface{}:
			if s == "*" {
				for _, k := range sortedKeys(m) {
					refPlain(m[k], rest, rec, out)
				}
			} else if e, ok := m[s]; ok {
				refPlain(e, rest, rec, out)
			}
		case []interface{}:
			if !fromList {
				return
			}
			if s == "*" {
				refPlain(n, rest, rec, out)
			} else if rec {
				for _, e := range m {
					visit(e, true)
				}
			}
		default:
			if s == "*" && fromList {
				refPlain(n, rest, rec, out)
			}
		}
	}
	if l, ok := v.([]interface{}); ok {
		for _, e := range l {
			visit(e, true)
		}
	} else {
		visit(v, false)
	}
}

// pstep is one parsed path step.
type pstep struct {
	name    string
	indexed bool
	idx     int
}

func parseSteps(path string) []pstep {
	var r []pstep
	for _, seg := range strings.Split(path, ".") {
		if seg == "" {
			continue
		}
		if i := strings.Index(seg, "["); i >= 0 {
			n, _ := strconv.Atoi(strings.TrimSuffix(seg[i+1:], "]"))
			r = append(r, pstep{seg[:i], true, n})
		} else {
			r = append(r, pstep{name: seg})
		}
	}
	return r
}

// refPath evaluates a path with optional indexed steps: k[i] selects, for each
// parent (a map), the i-th of the values k alone would yield; evaluation continues
// only through maps.
func refPath(root interface{}, steps []pstep, rec bool) []interface{} {
	j := -1
	for i, s := range steps {
		if s.indexed {
			j = i
			break
		}
	}
	var out []interface{}
	if j < 0 {
		names := make([]string, len(steps))
		for i, s := range steps {
			names[i] = s.name
		}
		refPlain(root, names, rec, &out)
		return out
	}
	var parents []interface{}
	if j == 0 {
		parents = []interface{}{root}
	} else {
		names := make([]string, j)
		for i := 0; i < j; i++ {
			names[i] = steps[i].name
		}
		refPlain(root, names, rec, &parents)
	}
	st := steps[j]
	for _, p := range parents {
		pm, ok := p.(map[string]interface{})
		if !ok {
			continue
		}
		var vals []interface{}
		refPlain(pm, []string{st.name}, rec, &vals)
		if st.idx >= len(vals) {
			continue
		}
		x := vals[st.idx]
		if j == len(steps)-1 {
			out = append(out, x)
		} else if xm, ok := x.(map[string]interface{}); ok {
			out = append(out, refPath(xm, steps[j+1:], rec)...)
		}
	}
	return out
}
