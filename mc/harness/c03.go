package main

import (
	"encoding/json"
	"fmt"
	"strconv"
	"strings"

	mxj "github.com/clbanning/mxj/v2"
	"github.com/clbanning/mxj/v2/j2x"
	rt "github.com/clbanning/mxj/v2/zzverifrt"
)

// C03 — Encoding any JSON-shaped Map or value as XML preserves all of its data.

type c03Case struct {
	Value json.RawMessage `json:"value"`
	Enc   string          `json:"encoder"`
	Tags  []string        `json:"tags,omitempty"`
	Esc   bool            `json:"xml_escape_chars"`
	Pol   int             `json:"order_policy"`
	Dag   string          `json:"value_with_shared_containers,omitempty"` // built by dagMaps()[Dag] ("value" shows it unfolded)
}

func init() {
	register(&Property{ID: "C03", Run: c03Run, Replay: func(c *Ctx, cas json.RawMessage, ch []int) {
		var k c03Case
		json.Unmarshal(cas, &k)
		v := retype(fromJSON(string(k.Value)))
		if k.Dag != "" {
			v = dagMaps()[k.Dag]()
			curDag = k.Dag
			defer func() { curDag = "" }()
		}
		applyCfg(Cfg{AttrPrefix: "-", KeyPrefix: "#", EscEnc: k.Esc})
		rt.OrderPolicy = k.Pol
		c03Check(c, v, k.Enc, k.Tags, k.Esc)
		rt.OrderPolicy = rt.PolicySorted
		resetOptions()
	}})
}

func scalarText(v interface{}) string {
	if v == nil {
		return ""
	}
	return fmt.Sprintf("%v", v)
}

// jsonToItems: the XML elements the documented encoding rules prescribe for value v under tag key.
func jsonToItems(key string, v interface{}) []XItem {
	switch t := v.(type) {
	case []interface{}:
		if len(t) == 0 {
			return []XItem{{Kind: 'e', Elem: &XElem{Local: key}}}
		}
		var r []XItem
		for _, e := range t {
			r = append(r, jsonToItems(key, e)...)
		}
		return r
	case map[string]interface{}:
		e := &XElem{Local: key}
		for _, k := range sortedKeys(t) {
			if strings.HasPrefix(k, "-") && len(k) > 1 {
				e.Attrs = append(e.Attrs, XAttr{Local: k[1:], Value: scalarText(t[k])})
			}
		}
		if tv, ok := t["#text"]; ok {
			if s := scalarText(tv); s != "" {
				e.Items = append(e.Items, XItem{Kind: 't', Text: s})
			}
		}
		for _, k := range sortedKeys(t) {
			if k == "#text" || (strings.HasPrefix(k, "-") && len(k) > 1) {
				continue
			}
			e.Items = append(e.Items, jsonToItems(k, t[k])...)
		}
		return []XItem{{Kind: 'e', Elem: e}}
	default:
		e := &XElem{Local: key}
		if s := scalarText(v); s != "" {
			e.Items = []XItem{{Kind: 't', Text: s}}
		}
		return []XItem{{Kind: 'e', Elem: e}}
	}
}

// c03InDomain: attribute entries are scalars (non-null), text entries are scalars, and neither
// appears where it would have to serve as an element name.
func c03InDomain(v interface{}, top bool) bool {
	switch t := v.(type) {
	case map[string]interface{}:
		for k, e := range t {
			isAttr := strings.HasPrefix(k, "-")
			if isAttr || k == "#text" {
				// (at the top of a Map these are the attributes / text of the root element, which then carries the
				// default root tag - also when such an entry is the Map's only one: until the fourth bug-hunt round
				// every Map with such an entry at the top was left out)
				if top && len(t) > 1 {
					return false
				}
				switch e.(type) {
				case map[string]interface{}, []interface{}:
					return false
				}
				// (a null attribute entry: the statement speaks of "scalar" attribute entries and of null becoming an
				// empty *element*; the encoders refuse it with an error, which is accepted - see c03HasNullAttr)
				continue
			}
			if !c03InDomain(e, false) {
				return false
			}
		}
	case []interface{}:
		for _, e := range t {
			if !c03InDomain(e, false) {
				return false
			}
		}
	}
	return true
}

// c03Expected: the Map that decoding the output must give, or nil when the root form is outside the quantifier.
func c03Expected(v interface{}, enc string, tags []string) map[string]interface{} {
	rtag, etag := "doc", "element"
	if len(tags) >= 1 {
		rtag = tags[0]
	}
	if len(tags) == 2 {
		etag = tags[1]
	}
	var root *XElem
	switch enc {
	case "Xml", "XmlIndent", "JsonToXml":
		m, ok := v.(map[string]interface{})
		if !ok {
			return nil
		}
		if len(m) == 1 && !c03OnlyAttrOrText(m) {
			for k, e := range m {
				if _, isList := e.([]interface{}); isList {
					return nil // a single-key map whose value is a list is outside the quantifier
				}
				its := jsonToItems(k, e)
				root = its[0].Elem
			}
		} else {
			root = jsonToItems("doc", m)[0].Elem
		}
	case "AnyXml", "AnyXmlIndent":
		switch t := v.(type) {
		case []interface{}:
			root = &XElem{Local: rtag}
			for _, e := range t {
				if mm, ok := e.(map[string]interface{}); ok && len(mm) == 1 && !c03OnlyAttrOrText(mm) {
					// documented: a list member with a single entry is written under that entry's key
					for k, x := range mm {
						root.Items = append(root.Items, jsonToItems(k, x)...)
					}
				} else {
					// ... unless that entry is an attribute or the text of the member: then it is an element
					// like any other member (until the third bug-hunt round such members were left out, because
					// the encoder used "-a" / "#text" as the element name - malformed output with a nil error)
					root.Items = append(root.Items, jsonToItems(etag, e)...)
				}
			}
		default:
			its := jsonToItems(rtag, v)
			root = its[0].Elem
		}
	}
	return refDecode(root, defCfg())
}

func c03OnlyAttrOrText(m map[string]interface{}) bool {
	for k := range m {
		if !(strings.HasPrefix(k, "-") && len(k) > 1) && k != "#text" {
			return false
		}
	}
	return true
}

func c03Encode(v interface{}, enc string, tags []string) ([]byte, error) {
	switch enc {
	case "Xml":
		return mxj.Map(v.(map[string]interface{})).Xml()
	case "XmlIndent":
		return mxj.Map(v.(map[string]interface{})).XmlIndent("", "  ")
	case "JsonToXml":
		return j2x.JsonToXml([]byte(jsonOf(v)))
	case "AnyXml":
		return mxj.AnyXml(v, tags...)
	case "AnyXmlIndent":
		return mxj.AnyXmlIndent(v, "", "  ", tags...)
	}
	return nil, fmt.Errorf("unknown encoder")
}

func c03Shape(v interface{}) string {
	var f []string
	var nullText, emptyC, nested, attr, text bool
	var walk func(x interface{}, inList bool)
	walk = func(x interface{}, inList bool) {
		switch t := x.(type) {
		case map[string]interface{}:
			if len(t) == 0 {
				emptyC = true
			}
			for k, e := range t {
				if k == "#text" {
					text = true
					if e == nil {
						nullText = true
					}
				}
				if strings.HasPrefix(k, "-") {
					attr = true
				}
				walk(e, false)
			}
		case []interface{}:
			if len(t) == 0 {
				emptyC = true
			}
			if inList {
				nested = true
			}
			for _, e := range t {
				walk(e, true)
			}
		}
	}
	walk(v, false)
	if nullText {
		f = append(f, "null-text-entry")
	}
	if nested {
		f = append(f, "nested-list")
	}
	if emptyC {
		f = append(f, "empty-container")
	}
	if attr {
		f = append(f, "attr")
	}
	if text && !nullText {
		f = append(f, "text")
	}
	if len(f) == 0 {
		return "plain"
	}
	return strings.Join(f, ",")
}

// c03HasNullAttr: a '-'-prefixed entry whose value is null. Whether that is an attribute the encoders must write
// the property does not say; an error is accepted, a nil error with output that is not well formed is not.
func c03HasNullAttr(v interface{}) bool {
	switch t := v.(type) {
	case map[string]interface{}:
		for k, e := range t {
			if strings.HasPrefix(k, "-") && e == nil {
				return true
			}
			if c03HasNullAttr(e) {
				return true
			}
		}
	case []interface{}:
		for _, e := range t {
			if c03HasNullAttr(e) {
				return true
			}
		}
	}
	return false
}

func c03Check(c *Ctx, v interface{}, enc string, tags []string, esc bool) (nontrivial bool) {
	nullAttr := c03HasNullAttr(v)
	exp := c03Expected(v, enc, tags)
	if exp == nil {
		return false
	}
	cas := func() interface{} {
		return c03Case{Dag: curDag, Value: json.RawMessage(jsonOf(untype(v))), Enc: enc, Tags: tags, Esc: esc, Pol: rt.OrderPolicy}
	}
	shape := c03Shape(v)
	before := dump(v)
	var x []byte
	var err error
	var gw []string
	st, pan := protect(func() { gw = globalWrites(func() { x, err = c03Encode(v, enc, tags) }) })
	if len(gw) > 0 {
		c.Count("encodes_that_wrote_package_state", 1) // informational, see C01
	}
	c.S.Transitions++
	c.S.Validated++
	if pan {
		c.Violate(enc, "panic", shape, cas, nil, st)
		return
	}
	if dump(v) != before {
		c.Violate(enc, "input-modified", shape, cas, nil, fmt.Sprintf("value=%s", before))
	}
	if err != nil {
		if nullAttr {
			return false // refused with an error: accepted for a null attribute entry
		}
		c.Violate(enc, "error-on-valid-input", shape, cas, nil, fmt.Sprintf("value=%s err=%v", jsonOf(v), err))
		return
	}
	c.Retain(enc, x, cas)
	if werr := wellFormed(x); werr != nil {
		c.Violate(enc, "well-formed", shape, cas, nil, fmt.Sprintf("value=%s\n output=%s\n %v", jsonOf(v), x, werr))
		return true
	}
	if nullAttr {
		return true // accepted and well formed; what the attribute becomes is not prescribed
	}
	m, derr := mxj.NewMapXml(x)
	c.S.Transitions++
	if derr != nil || !deepEq(map[string]interface{}(m), exp) {
		c.Violate(enc, "data-preserved", shape, cas, nil, fmt.Sprintf("value=%s\n output=%s\n expected decode=%s\n   actual decode=%s err=%v", jsonOf(v), x, dump(exp), dump(m), derr))
		return true
	}
	c.Outcome(string(x))
	return true
}

func c03Run(c *Ctx) {
	mustBeDefault(c)
	c.S.Rule = "cases = (value, encoder, tags, escaping): every JSON-shaped template with <= N nodes over keys {a, b, -x, #text} and leaves {\"s\", \" s \", \"\", 1, true, null} (lists 0-3 incl. nested and mixed, empty containers; attribute entries scalar, a null attribute entry may be refused with an error but never yields malformed output, text entries scalar incl. null) as multi-key root, single-key root (non-list value) and AnyXml argument (default and explicit tags); encoders Map.Xml, Map.XmlIndent, AnyXml, AnyXmlIndent, j2x.JsonToXml; a second family with strings of XML special characters and line-control characters (CR, LF, TAB) under XMLEscapeChars(true); an attribute-heavy family (keys {a,-x,-xy,-z,#text}, two to three attributes per element, empty and non-empty values side by side); a family of 8 values with shared containers (one map or list object - with children, attribute-only, text-only, empty - under several keys, at two depths or twice in a list; as single-key root and as multi-key root); a typed-number family (int, int64, float32, uint8, uint64, json.Number, float64 with large and small exponents as element, attribute and text values, <= 4 nodes); a scale family (lists of 33-1025 scalars / maps, a map with 70 keys and 40 attributes, nesting depth 100, strings of 5000 bytes). Oracle: output well formed with exactly one root, and decoding it gives the Map the reference decode prescribes for the abstract document the encoding rules denote. Ascending and descending map order; returned bytes are retained and re-checked after later calls. non-trivial = in-domain value encoded."
	c.S.Assumptions = []string{"attribute and text entries never stand where an element name is needed (root key, AnyXml single-key list member): outside the property's valid-XML-name premise", "reference: value -> abstract document (harness/c03.go) -> reference decode (harness/ref_xml.go)"}
	n, n2 := 5, 4
	if c.Thorough {
		n, n2 = 6, 5
	}
	encs := []string{"Xml", "XmlIndent", "JsonToXml", "AnyXml", "AnyXmlIndent"}
	skipJSONRoute := false // typed numbers do not survive the JSON text j2x.JsonToXml starts from
	runAll := func(v func() interface{}, esc bool) {
		for _, enc := range encs {
			if skipJSONRoute && enc == "JsonToXml" {
				continue
			}
			tagSets := [][]string{nil}
			if strings.HasPrefix(enc, "AnyXml") {
				tagSets = [][]string{nil, {"root"}, {"root", "item"}}
			}
			for _, tags := range tagSets {
				if !c.Mine() {
					continue
				}
				c.S.States++
				c.S.Evaluations++
				for _, pol := range []int{rt.PolicySorted, rt.PolicyReverse} {
					rt.OrderPolicy = pol
					val := v()
					nt := c03Check(c, val, enc, tags, esc)
					c.S.Schedules++
					if nt && pol == rt.PolicySorted {
						c.S.Nontrivial++
						c.Sample(map[string]interface{}{"value": json.RawMessage(jsonOf(val)), "encoder": enc, "tags": tags})
					}
				}
				rt.OrderPolicy = rt.PolicySorted
			}
		}
	}
	for _, esc := range []bool{false, true} {
		applyCfg(Cfg{AttrPrefix: "-", KeyPrefix: "#", EscEnc: esc})
		leaves := []interface{}{"s", " s ", "", 1.0, true, nullLeaf{}}
		nn := n
		if esc {
			leaves = []interface{}{"a&b", "<t>", "\"q\" 'r'", "s", "a\ufffdb", "l1\rl2\n\tx"}
			nn = n2
		}
		g := newGen(GenP{Keys: []string{"a", "b", "-x", "#text"}, MaxList: 3, MaxKeys: 3, EmptyList: true, EmptyMap: true, ListInList: true, Leaves: leaves})
		g.values(nn, func(t *T) {
			probe := inst(t, nil)
			if !c03InDomain(probe, true) {
				return
			}
			runAll(func() interface{} { return inst(t, nil) }, esc)
		})
		// attribute-heavy family: up to three attributes on one element (names that are prefixes of one
		// another), empty and non-empty values side by side, beside text and child content
		ga := newGen(GenP{Keys: []string{"a", "-x", "-xy", "-z", "#text"}, MaxList: 2, MaxKeys: 4, EmptyList: false, EmptyMap: true, ListInList: false,
			Leaves: []interface{}{leaves[0], "", leaves[len(leaves)-1], 2.0}})
		ga.values(nn, func(t *T) {
			if t.Kind == 'v' || !c03HasTwoAttrs(t) {
				return
			}
			probe := inst(t, nil)
			if !c03InDomain(probe, true) {
				return
			}
			runAll(func() interface{} { return inst(t, nil) }, esc)
		})
	}
	// values with shared containers (one map or list object under several keys / twice in a list)
	applyCfg(Cfg{AttrPrefix: "-", KeyPrefix: "#"})
	for _, name := range dagNames() {
		mk := dagMaps()[name]
		curDag = name
		skipJSONRoute = true // the JSON route re-decodes the text: nothing is shared any more
		runAll(func() interface{} { return mk() }, false)
		runAll(func() interface{} { return mk()["r"] }, false)
		skipJSONRoute = false
		curDag = ""
	}
	// typed numbers: a caller-built Map may hold numbers of any Go numeric type, and json.Number
	applyCfg(Cfg{AttrPrefix: "-", KeyPrefix: "#"})
	gt := newGen(GenP{Keys: []string{"a", "-x", "#text"}, MaxList: 2, MaxKeys: 3, EmptyList: false, EmptyMap: false, ListInList: false,
		Leaves: []interface{}{int(7), int64(-9), float32(0.1), uint8(200), uint64(18446744073709551615), json.Number("1e3"), 1e21, 123456789.0, 1e-6, "s"}})
	gt.values(4, func(t *T) {
		probe := inst(t, nil)
		if !c03InDomain(probe, true) || c03UnsignedAttr(probe) {
			return
		}
		skipJSONRoute = true
		runAll(func() interface{} { return inst(t, nil) }, false)
		skipJSONRoute = false
	})
	// scale family: values large in one dimension (lists of 33-1025 scalars / maps, a map with 70 keys and
	// 40 attributes, nesting depth 100, a string of 5000 bytes)
	applyCfg(Cfg{AttrPrefix: "-", KeyPrefix: "#", EscEnc: true})
	for _, mk := range c03Scale() {
		runAll(mk, true)
	}
	resetOptions()
}

func c03Scale() []func() interface{} {
	var out []func() interface{}
	for _, n := range []int{33, 65, 129, 1025} {
		n := n
		out = append(out, func() interface{} {
			l := make([]interface{}, n)
			for i := range l {
				l[i] = "v" + strconv.Itoa(i)
			}
			return map[string]interface{}{"a": l, "b": "x"}
		}, func() interface{} {
			l := make([]interface{}, n)
			for i := range l {
				l[i] = map[string]interface{}{"b": float64(i), "-x": strconv.Itoa(i), "c": []interface{}{"p", "q&r"}}
			}
			return map[string]interface{}{"a": l}
		})
	}
	out = append(out, func() interface{} {
		m := map[string]interface{}{}
		for i := 0; i < 70; i++ {
			m["k"+strconv.Itoa(i)] = "v<" + strconv.Itoa(i)
		}
		for i := 0; i < 40; i++ {
			m["-x"+strconv.Itoa(i)] = strconv.Itoa(i)
		}
		return map[string]interface{}{"a": m}
	}, func() interface{} {
		var v interface{} = "bottom"
		for i := 0; i < 100; i++ {
			v = map[string]interface{}{"a": v, "-x": "1"}
		}
		return map[string]interface{}{"a": v}
	}, func() interface{} {
		long := strings.Repeat("x & y <z> ", 500)
		return map[string]interface{}{"a": map[string]interface{}{"-x": long, "#text": long}, "b": []interface{}{long}}
	})
	return out
}

// c03HasTwoAttrs: some map of the template carries at least two attribute entries.
func c03HasTwoAttrs(t *T) bool {
	if t.Kind == 'M' {
		n := 0
		for _, k := range t.Keys {
			if strings.HasPrefix(k, "-") {
				n++
			}
		}
		if n >= 2 {
			return true
		}
	}
	for _, k := range t.Kids {
		if c03HasTwoAttrs(k) {
			return true
		}
	}
	return false
}

// c03UnsignedAttr: an attribute entry of a Go type that no decoder of the library produces and the attribute
// encoder refuses with an error (uint8): outside "JSON-shaped". uint64 is what the decoder itself produces for
// large integers under CastValuesToInt and is inside (it was excluded, together with uint8, until the third
// bug-hunt round - on the strength of the encoder's type switch, not of any documentation).
func c03UnsignedAttr(v interface{}) bool {
	switch t := v.(type) {
	case map[string]interface{}:
		for k, e := range t {
			if strings.HasPrefix(k, "-") {
				switch e.(type) {
				case uint8:
					return true
				}
			}
			if c03UnsignedAttr(e) {
				return true
			}
		}
	case []interface{}:
		for _, e := range t {
			if c03UnsignedAttr(e) {
				return true
			}
		}
	}
	return false
}
