package main

import (
	"fmt"
	"strconv"
	"strings"
)

// U-JSON: size-bounded enumeration of JSON-shaped value templates.

// T is a value template: leaf, list or map.
type T struct {
	Kind byte // 'v' leaf, 'L' list, 'M' map
	Keys []string
	Kids []*T
	Leaf interface{} // optional concrete leaf (nil = numbered by inst)
}

// GenP parameterises the enumeration.
type GenP struct {
	Keys       []string
	MaxList    int
	MaxKeys    int
	EmptyList  bool
	EmptyMap   bool
	ListInList bool
	Leaves     []interface{} // nil: a single anonymous leaf (numbered on instantiation)
}

type gen struct {
	p    GenP
	memo map[int][]*T
	subs [][]string // key subsets, ascending
}

func newGen(p GenP) *gen {
	g := &gen{p: p, memo: map[int][]*T{}}
	// all non-empty subsets of Keys of size <= MaxKeys, in simplest-first order
	n := len(p.Keys)
	for size := 1; size <= p.MaxKeys && size <= n; size++ {
		var rec func(start int, cur []string)
		rec = func(start int, cur []string) {
			if len(cur) == size {
				g.subs = append(g.subs, append([]string(nil), cur...))
				return
			}
			for i := start; i < n; i++ {
				rec(i+1, append(cur, p.Keys[i]))
			}
		}
		rec(0, nil)
	}
	return g
}

// compositions of n into k positive parts.
func compositions(n, k int, f func(parts []int)) {
	parts := make([]int, k)
	var rec func(i, left int)
	rec = func(i, left int) {
		if i == k-1 {
			if left >= 1 {
				parts[i] = left
				f(parts)
			}
			return
		}
		for x := 1; x <= left-(k-1-i); x++ {
			parts[i] = x
			rec(i+1, left-x)
		}
	}
	if k >= 1 && n >= k {
		rec(0, n)
	}
}

// sized returns all templates with exactly n nodes.
func (g *gen) sized(n int) []*T {
	if r, ok := g.memo[n]; ok {
		return r
	}
	var r []*T
	if n == 1 {
		if g.p.Leaves == nil {
			r = append(r, &T{Kind: 'v'})
		} else {
			for _, l := range g.p.Leaves {
				r = append(r, &T{Kind: 'v', Leaf: l})
			}
		}
		if g.p.EmptyList {
			r = append(r, &T{Kind: 'L'})
		}
		if g.p.EmptyMap {
			r = append(r, &T{Kind: 'M'})
		}
		g.memo[n] = r
		return r
	}
	// lists
	for k := 1; k <= g.p.MaxList; k++ {
		compositions(n-1, k, func(parts []int) {
			g.product(parts, func(kids []*T) {
				if !g.p.ListInList {
					for _, kd := range kids {
						if kd.Kind == 'L' {
							return
						}
					}
				}
				r = append(r, &T{Kind: 'L', Kids: append([]*T(nil), kids...)})
			})
		})
	}
	// maps
	for _, ks := range g.subs {
		k := len(ks)
		compositions(n-1, k, func(parts []int) {
			g.product(parts, func(kids []*T) {
				r = append(r, &T{Kind: 'M', Keys: ks, Kids: append([]*T(nil), kids...)})
			})
		})
	}
	g.memo[n] = r
	return r
}

func (g *gen) product(parts []int, f func(kids []*T)) {
	kids := make([]*T, len(parts))
	var rec func(i int)
	rec = func(i int) {
		if i == len(parts) {
			f(kids)
			return
		}
		for _, t := range g.sized(parts[i]) {
			kids[i] = t
			rec(i + 1)
		}
	}
	rec(0)
}

// rootMaps enumerates map templates with at most maxNodes nodes, simplest first.
func (g *gen) rootMaps(maxNodes int, f func(t *T)) {
	for n := 1; n <= maxNodes; n++ {
		for _, t := range g.sized(n) {
			if t.Kind == 'M' {
				f(t)
			}
		}
	}
}

// values enumerates all templates with at most maxNodes nodes.
func (g *gen) values(maxNodes int, f func(t *T)) {
	for n := 1; n <= maxNodes; n++ {
		for _, t := range g.sized(n) {
			f(t)
		}
	}
}

// inst builds a fresh value from a template; anonymous leaves are numbered through leaf().
func inst(t *T, leaf func() interface{}) interface{} {
	switch t.Kind {
	case 'v':
		if t.Leaf != nil {
			if _, isNull := t.Leaf.(nullLeaf); isNull {
				return nil
			}
			return t.Leaf
		}
		return leaf()
	case 'L':
		// one spare slot, like a list grown by append (e.g. by the decoders)
		l := make([]interface{}, len(t.Kids), len(t.Kids)+1)
		for i, k := range t.Kids {
			l[i] = inst(k, leaf)
		}
		return l
	default:
		m := make(map[string]interface{}, len(t.Kids))
		for i, k := range t.Kids {
			m[t.Keys[i]] = inst(k, leaf)
		}
		return m
	}
}

// nullLeaf stands for a JSON null in GenP.Leaves (a nil interface cannot be told from "anonymous").
type nullLeaf struct{}

// numbered string leaves "v1", "v2", ...
func strLeaves() func() interface{} {
	n := 0
	return func() interface{} { n++; return "v" + strconv.Itoa(n) }
}

// mixLeaves: numbered string leaves with every third leaf a JSON null.
func mixLeaves() func() interface{} {
	n := 0
	return func() interface{} {
		n++
		if n%3 == 0 {
			return nil
		}
		return "v" + strconv.Itoa(n)
	}
}

// hasListInList reports whether v contains a list directly inside a list.
func hasListInList(v interface{}) bool {
	switch t := v.(type) {
	case map[string]interface{}:
		for _, e := range t {
			if hasListInList(e) {
				return true
			}
		}
	case []interface{}:
		for _, e := range t {
			if _, ok := e.([]interface{}); ok {
				return true
			}
			if hasListInList(e) {
				return true
			}
		}
	}
	return false
}

func (t *T) String() string {
	switch t.Kind {
	case 'v':
		if t.Leaf != nil {
			return fmt.Sprintf("%v", t.Leaf)
		}
		return "v"
	case 'L':
		var p []string
		for _, k := range t.Kids {
			p = append(p, k.String())
		}
		return "[" + strings.Join(p, ",") + "]"
	}
	var p []string
	for i, k := range t.Kids {
		p = append(p, t.Keys[i]+":"+k.String())
	}
	return "{" + strings.Join(p, ",") + "}"
}

// seqs enumerates all sequences of length 1..maxLen over alphabet, shortest first.
func seqs(alphabet []string, maxLen int, f func(s []string)) {
	for L := 1; L <= maxLen; L++ {
		cur := make([]string, 0, L)
		var rec func()
		rec = func() {
			if len(cur) == L {
				f(cur)
				return
			}
			for _, a := range alphabet {
				cur = append(cur, a)
				rec()
				cur = cur[:len(cur)-1]
			}
		}
		rec()
	}
}
