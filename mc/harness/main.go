// Command mxjharness is the worker linked against the (instrumented) mxj build.
//
//	mxjharness run <ID> --tier quick|thorough --shard i --nshards n --out summary.json
//	mxjharness replay <replay.json>
//	mxjharness selftest --out file        (battery used for translation validation of the rewriter)
package main

import (
	"encoding/json"
	"flag"
	"fmt"
	"os"
	"path/filepath"
	"runtime"
	"runtime/debug"
	"sort"
	"strings"
	"time"

	mxj "github.com/clbanning/mxj/v2"
	"verif/mc/core"

	rt "github.com/clbanning/mxj/v2/zzverifrt"
)

// Property is one registered check.
type Property struct {
	ID     string
	Run    func(c *Ctx)
	Replay func(c *Ctx, cas json.RawMessage, choices []int)
}

var registry = map[string]*Property{}

func register(p *Property) { registry[p.ID] = p }

// Ctx is the per-worker context.
type Ctx struct {
	Tier     string
	Thorough bool
	Shard    int
	NShards  int
	S        *core.Summary
	caseIdx  int64
	outcomes map[uint64]struct{}
	deadline time.Time
	capped   bool
	Replay   bool
	maxViol  int
	start    time.Time
	sampleN  int
	mineN    int64
}

// Mine advances the case counter and reports whether the case belongs to this shard.
// It also enforces the tier budget: once exceeded no new case is opened.
func (c *Ctx) Mine() bool {
	i := c.caseIdx
	c.caseIdx++
	if c.capped {
		return false
	}
	if int(i%int64(c.NShards)) != c.Shard {
		return false
	}
	c.mineN++
	if c.mineN&0x3f == 0 && time.Now().After(c.deadline) {
		c.capped = true
		c.S.Exhaustive = false
		c.Cap(fmt.Sprintf("tier budget reached after case index %d; later cases not opened", i))
		return false
	}
	return true
}

// Capped reports whether the tier budget was hit.
func (c *Ctx) Capped() bool {
	if !c.capped && time.Now().After(c.deadline) {
		c.capped = true
		c.S.Exhaustive = false
		c.Cap("tier budget reached")
	}
	return c.capped
}

// Cap records a cap that was hit.
func (c *Ctx) Cap(s string) {
	for _, x := range c.S.Caps {
		if x == s {
			return
		}
	}
	c.S.Caps = append(c.S.Caps, s)
}

// Count bumps a named counter.
func (c *Ctx) Count(name string, n int64) {
	c.S.Counters[name] += n
}

// Outcome records an observed outcome digest.
func (c *Ctx) Outcome(s string) {
	if len(c.outcomes) < 2000000 {
		c.outcomes[core.Hash64(s)] = struct{}{}
	}
}

// Sample keeps a few concrete cases for the evidence file.
func (c *Ctx) Sample(v interface{}) {
	c.sampleN++
	n := c.sampleN
	if len(c.S.Samples) < 3 || (len(c.S.Samples) < 6 && n&(n-1) == 0 && n > 1000) {
		c.S.Samples = append(c.S.Samples, core.J(v))
	}
}

// Violate records a violation.
func (c *Ctx) Violate(api, clause, shape string, cas interface{}, choices []int, detail string) {
	c.S.ViolationCount++
	k := core.Violation{API: api, Clause: clause, Shape: shape}.Key()
	c.S.ViolationKeys[k]++
	// keep the first few of every class (simplest first, since enumeration is simplest-first)
	if c.S.ViolationKeys[k] <= 3 && len(c.S.Violations) < c.maxViol {
		if f, ok := cas.(func() interface{}); ok {
			cas = f()
		}
		v := core.Violation{Property: c.S.Property, API: api, Clause: clause, Shape: shape, Case: core.J(cas), Choices: append([]int(nil), choices...), Detail: detail}
		if len(choices) == 0 {
			v.GoTest = goTestFor(c.S.Property, v.Case, detail)
		}
		c.S.Violations = append(c.S.Violations, v)
	}
	if c.Replay {
		fmt.Printf("REPRODUCED api=%s clause=%s shape=%s\n%s\n", api, clause, shape, detail)
	}
}

// Broken marks the check itself as failed.
func (c *Ctx) Broken(format string, a ...interface{}) {
	if c.S.Broken == "" {
		c.S.Broken = fmt.Sprintf(format, a...)
	}
}

func newCtx(id, tier string, shard, nshards int, budget time.Duration) *Ctx {
	c := &Ctx{Tier: tier, Thorough: tier == "thorough", Shard: shard, NShards: nshards, outcomes: map[uint64]struct{}{}, maxViol: 60, start: time.Now()}
	c.S = &core.Summary{Property: id, Tier: tier, Shard: shard, NShards: nshards, Exhaustive: true, Counters: map[string]int64{}, ViolationKeys: map[string]int64{}}
	c.deadline = time.Now().Add(budget)
	return c
}

// protect runs f, converting a panic into (stack, true).
// stepBudget: scheduling points one guarded API call may pass (the largest call in any check stays below a
// hundredth of it); a call that exceeds it is reported as not terminating.
const stepBudget = 400000

func protect(f func()) (stack string, panicked bool) { return guard(f, stepBudget) }

// maxSteps: the largest number of scheduling points any guarded call of this run passed (reported in the evidence).
var maxSteps int64

// guard runs f, turning a panic into a report; budget > 0 bounds the scheduling points f may pass (0: no bound).
// Budgets nest: an inner guarded call has its own and the enclosing one resumes afterwards.
func guard(f func(), budget int64) (stack string, panicked bool) {
	// under the cooperative scheduler several guarded calls are in flight at once (one per thread) and the
	// budget is one global counter: leave it alone there (the scheduler has its own horizon per execution)
	budgeted := rt.Sched == nil
	prev := rt.Budget
	if budgeted {
		rt.Budget = budget
	}
	defer func() {
		if budgeted {
			if budget > 0 && rt.Budget > 0 && budget-rt.Budget > maxSteps {
				maxSteps = budget - rt.Budget
			}
			rt.Budget = prev
		}
		if r := recover(); r != nil {
			panicked = true
			if _, ok := r.(rt.BudgetExhausted); ok {
				// the stack may be hundreds of thousands of frames deep: report the innermost ones only
				pcs := make([]uintptr, 24)
				n := runtime.Callers(3, pcs)
				fr := runtime.CallersFrames(pcs[:n])
				var top []string
				for {
					f, more := fr.Next()
					if strings.Contains(f.Function, "mxj/v2") && !strings.Contains(f.Function, "zzverifrt") {
						top = append(top, fmt.Sprintf("%s (%s:%d)", f.Function, filepath.Base(f.File), f.Line))
					}
					if !more || len(top) >= 6 {
						break
					}
				}
				stack = fmt.Sprintf("does not terminate: more than %d function entries / loop iterations in one call (unbounded recursion or loop); innermost frames:\n%s", stepBudget, strings.Join(top, "\n"))
				return
			}
			stack = fmt.Sprintf("%v\n%s", r, trimStack(string(debug.Stack())))
		}
	}()
	f()
	return
}

func trimStack(s string) string {
	lines := strings.Split(s, "\n")
	var out []string
	for _, l := range lines {
		if strings.Contains(l, "mxj/v2") && !strings.Contains(l, "zzverifrt") {
			out = append(out, strings.TrimSpace(l))
		}
		if len(out) >= 8 {
			break
		}
	}
	return strings.Join(out, "\n")
}

func main() {
	if len(os.Args) < 2 {
		fmt.Fprintln(os.Stderr, "usage: mxjharness run|replay|selftest|list ...")
		os.Exit(2)
	}
	switch os.Args[1] {
	case "list":
		var ids []string
		for id := range registry {
			ids = append(ids, id)
		}
		sort.Strings(ids)
		fmt.Println(strings.Join(ids, " "))
	case "run":
		fs := flag.NewFlagSet("run", flag.ExitOnError)
		tier := fs.String("tier", "quick", "")
		shard := fs.Int("shard", 0, "")
		nshards := fs.Int("nshards", 1, "")
		out := fs.String("out", "", "")
		budget := fs.Duration("budget", 0, "")
		id := os.Args[2]
		fs.Parse(os.Args[3:])
		p := registry[id]
		if p == nil {
			fmt.Fprintln(os.Stderr, "unknown property", id)
			os.Exit(2)
		}
		b := *budget
		if b == 0 {
			b = 100 * time.Second
			if *tier == "thorough" {
				b = 25 * time.Minute
			}
		}
		c := newCtx(id, *tier, *shard, *nshards, b)
		initBaseline()
		if st, pan := guard(func() { p.Run(c) }, 0); pan {
			c.Broken("harness panic outside any guarded call: %s", st)
		}
		// end of run: with every option set back to its default, the package state must be the
		// fresh-process state - whatever the check did in between (a cache, pool or memo table that
		// a decoder, encoder or query filled is package state that outlives the call)
		resetOptions()
		if d := stateDiff(); d != "" {
			// informational (reported in the evidence): option-like package variables that differ from the
			// fresh-process state although every option was restored. Behavioural consequences are what the
			// checks judge (C18 compares behaviour after restoring defaults on every visited state).
			c.Cap("note: option-like package variables differ from the fresh-process state at the end of the run: " + short(d, 300))
			c.Count("end_of_run_state_differs", 1)
		}
		c.S.Outcomes = int64(len(c.outcomes))
		c.Count("max_steps_in_one_guarded_call", 0)
		c.S.Counters["max_steps_in_one_guarded_call"] = maxSteps
		c.S.WallS = time.Since(c.start).Seconds()
		if rt.OrderCapped {
			c.Cap(fmt.Sprintf("map-order choice points with more than %d keys use the capped order set (sorted, reversed, rotations, adjacent transpositions)", rt.MaxFullPerm))
		}
		b2, _ := json.Marshal(c.S)
		if *out == "" {
			fmt.Println(string(b2))
		} else if err := os.WriteFile(*out, b2, 0o644); err != nil {
			fmt.Fprintln(os.Stderr, err)
			os.Exit(2)
		}
	case "replay":
		data, err := os.ReadFile(os.Args[2])
		if err != nil {
			fmt.Fprintln(os.Stderr, err)
			os.Exit(2)
		}
		var r core.Replay
		if err := json.Unmarshal(data, &r); err != nil {
			fmt.Fprintln(os.Stderr, err)
			os.Exit(2)
		}
		p := registry[r.Property]
		if p == nil || p.Replay == nil {
			fmt.Fprintln(os.Stderr, "no replay for", r.Property)
			os.Exit(2)
		}
		c := newCtx(r.Property, "quick", 0, 1, time.Hour)
		c.Replay = true
		initBaseline()
		var seq struct {
			Sequence []json.RawMessage `json:"sequence"`
		}
		json.Unmarshal(r.Case, &seq)
		if st, pan := guard(func() {
			if len(seq.Sequence) > 0 {
				// a multi-step history: replay the cases in order in this one process
				for _, cs := range seq.Sequence {
					p.Replay(c, cs, nil)
				}
				return
			}
			p.Replay(c, r.Case, r.Choices)
		}, 0); pan {
			fmt.Println("harness panic:", st)
			os.Exit(2)
		}
		// exit 1 iff the same class of violation reproduced
		want := core.Violation{API: r.API, Clause: r.Clause, Shape: r.Shape}.Key()
		if c.S.ViolationKeys[want] > 0 {
			fmt.Printf("REPLAY-RESULT reproduced=true class=%s\n", want)
			os.Exit(1)
		}
		fmt.Printf("REPLAY-RESULT reproduced=false class=%s other_violations=%d\n", want, c.S.ViolationCount)
		os.Exit(0)
	case "racepass":
		racePass()
	case "vector":
		for _, e := range mxj.VerifState() {
			fmt.Println(e)
		}
	case "c18cold":
		var names []string
		json.Unmarshal([]byte(os.Args[2]), &names)
		c18ColdChild(names)
	case "selftest":
		out := ""
		if len(os.Args) > 3 && os.Args[2] == "--out" {
			out = os.Args[3]
		}
		s := selftestBattery()
		if out == "" {
			fmt.Print(s)
		} else {
			os.WriteFile(out, []byte(s), 0o644)
		}
	default:
		fmt.Fprintln(os.Stderr, "unknown command", os.Args[1])
		os.Exit(2)
	}
}
