package main

import (
	"fmt"
	"strings"

	mxj "github.com/clbanning/mxj/v2"
)

// selftestBattery exercises decode/encode/query/update paths with fixed inputs and prints
// every result. It is run on the plain build and on the instrumented build (sorted order
// policy); the two outputs must be identical (translation validation of the rewriter).
func selftestBattery() string {
	var sb strings.Builder
	p := func(label string, v interface{}, err error) {
		fmt.Fprintf(&sb, "%s => %s | err=%v\n", label, dump(v), err)
	}
	docs := []string{
		`<a/>`, `<a>x</a>`, `<a b="1"><c/>t</a>`, `<doc><a>1</a><b>2</b><a>3</a></doc>`,
		`<r x="1" y="2"><k>true</k><k n="2">3.5</k><z><k>q</k></z></r>`,
		`<?xml version="1.0"?><!-- c --><r><!--in--><a>1</a><?pi x?><b/></r>`,
		`<r><a>&lt;&amp;</a><b><![CDATA[<x>]]></b></r>`, `<r><a>`, `</a>`, ``,
	}
	for _, d := range docs {
		d := d
		if _, pan := protect(func() {
			m, err := mxj.NewMapXml([]byte(d))
			p("NewMapXml "+d, m, err)
			m2, err := mxj.NewMapXml([]byte(d), true)
			p("NewMapXml cast "+d, m2, err)
			ms, err := mxj.NewMapXmlSeq([]byte(d))
			p("NewMapXmlSeq "+d, ms, err)
			if m != nil {
				x, err := m.Xml()
				p("Xml", string(x), err)
				x, err = m.XmlIndent("", "  ")
				p("XmlIndent", string(x), err)
				j, err := m.Json()
				p("Json", string(j), err)
				for _, path := range []string{"*", "r.k", "r.*", "doc.a", "doc.a[1]", "r.z.k", "*.*", "r.k[1].#text"} {
					v, err := m.ValuesForPath(path)
					if strings.Contains(path, "*") {
						p("ValuesForPath "+path, sortedCopy(dumpSeq(v)), err)
					} else {
						p("ValuesForPath "+path, v, err)
					}
				}
				v, err := m.ValuesForKey("k")
				p("ValuesForKey k", sortedCopy(dumpSeq(v)), err)
				v, err = m.ValuesForKey("k", "-n:2")
				p("ValuesForKey k -n:2", sortedCopy(dumpSeq(v)), err)
				ln := m.LeafNodes()
				p("LeafNodes", fmt.Sprintf("%v", sortLeafs(ln)), nil)
				pk := m.PathsForKey("k")
				p("PathsForKey", fmt.Sprintf("%v", sortedCopy(pk)), nil)
				mc, _ := m.Copy()
				n, err := mc.UpdateValuesForPath("k:new", "r.k")
				p("Update", fmt.Sprintf("%d %s", n, dump(mc)), err)
				nm, err := m.NewMap("r.k:x.y", "doc.a:q")
				p("NewMap", nm, err)
			}
			if ms != nil {
				if _, pan := protect(func() {
					x, err := ms.Xml()
					p("SeqXml", string(x), err)
					x, err = ms.XmlIndent("", "  ")
					p("SeqXmlIndent", string(x), err)
				}); pan {
					p("SeqXml PANIC", nil, nil)
				}
			}
		}); pan {
			p("PANIC "+d, nil, nil)
		}
	}
	for _, j := range []string{`{"a":1,"b":[1,{"c":"x"}],"d":null}`, `[1,2]`, `{"a":`, ``} {
		m, err := mxj.NewMapJson([]byte(j))
		p("NewMapJson "+j, m, err)
		if m != nil {
			x, err := m.Xml()
			p("Xml", string(x), err)
		}
		x, err := mxj.AnyXml(fromJSONOrNil(j))
		p("AnyXml", string(x), err)
	}
	return sb.String()
}

func fromJSONOrNil(s string) (v interface{}) {
	defer func() { recover() }()
	return fromJSON(s)
}

func sortLeafs(ln []mxj.LeafNode) []string {
	var r []string
	for _, l := range ln {
		r = append(r, l.Path+"="+dump(l.Value))
	}
	return sortedCopy(r)
}
