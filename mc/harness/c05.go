package main

import (
	"bytes"
	"encoding/json"
	"encoding/xml"
	"fmt"
	"io"
	"strings"

	mxj "github.com/clbanning/mxj/v2"
	rt "github.com/clbanning/mxj/v2/zzverifrt"
)

// C05 — Special characters survive encoding; invalid output is an error, never silent.

type c05Case struct {
	S     string `json:"string"`
	Pos   string `json:"position"` // text | attr | text+attr | text+children
	Enc   string `json:"encoder"`  // Map.Xml | Map.XmlIndent | MapSeq.Xml | MapSeq.XmlIndent
	Mode  string `json:"mode"`     // enc | dec | off
	Valid bool   `json:"check_valid"`
	Hist  string `json:"option_history,omitempty"`
	Pol   int    `json:"order_policy"`
	Bytes bool   `json:"values_as_byte_slices,omitempty"` // the Map holds its string values as []byte (documented as supported by the Map encoders)
}

// c05Bytes: the current case holds its values as []byte.
var c05Bytes bool

func bytesify(v interface{}) interface{} {
	switch t := v.(type) {
	case map[string]interface{}:
		for k, e := range t {
			t[k] = bytesify(e)
		}
		return t
	case []interface{}:
		for i, e := range t {
			t[i] = bytesify(e)
		}
		return t
	case string:
		return []byte(t)
	}
	return v
}

func init() {
	register(&Property{ID: "C05", Run: c05Run, Replay: func(c *Ctx, cas json.RawMessage, ch []int) {
		var k c05Case
		json.Unmarshal(cas, &k)
		rt.OrderPolicy = k.Pol
		c05Bytes = k.Bytes
		c05Check(c, k.S, k.Pos, k.Enc, k.Mode, k.Valid, k.Hist)
		c05Bytes = false
		rt.OrderPolicy = rt.PolicySorted
		resetOptions()
	}})
}

func c05Doc(s, pos string) *XElem {
	e := &XElem{Local: "e"}
	switch pos {
	case "text":
		e.Items = []XItem{{Kind: 't', Text: s}}
	case "attr":
		e.Attrs = []XAttr{{Local: "x", Value: s}}
	case "text+attr":
		e.Attrs = []XAttr{{Local: "x", Value: "v"}}
		e.Items = []XItem{{Kind: 't', Text: s}}
	case "text+children":
		e.Items = []XItem{{Kind: 't', Text: s}, {Kind: 'e', Elem: &XElem{Local: "c", Items: []XItem{{Kind: 't', Text: "v"}}}}}
	}
	switch pos {
	case "root-text":
		return &XElem{Local: "r", Items: []XItem{{Kind: 't', Text: s}}}
	case "root-attr":
		return &XElem{Local: "r", Attrs: []XAttr{{Local: "x", Value: s}}}
	case "root-text+children":
		return &XElem{Local: "r", Items: []XItem{{Kind: 't', Text: s}, {Kind: 'e', Elem: &XElem{Local: "c"}}}}
	case "list-members":
		// <r><e>s</e><e>v</e></r>: decodes to a single-key Map whose value is a list of non-map members
		return &XElem{Local: "e", Items: []XItem{{Kind: 't', Text: s}}}
	}
	return &XElem{Local: "r", Items: []XItem{{Kind: 'e', Elem: e}}}
}

// c05SetMode applies the escaping mode through the real setters. hist selects one of the call
// histories that documents say lead to the same mode.
func c05SetMode(mode string, valid bool, hist string) {
	resetOptions()
	switch mode {
	case "enc":
		mxj.XMLEscapeChars(true)
	case "dec":
		switch hist {
		case "enc-then-dec":
			mxj.XMLEscapeChars(true)
			mxj.XMLEscapeCharsDecoder(true)
		case "enc-then-dec-toggle":
			mxj.XMLEscapeChars(true)
			mxj.XMLEscapeCharsDecoder()
		case "dec-then-enc":
			mxj.XMLEscapeCharsDecoder(true)
			mxj.XMLEscapeChars(true)
		case "dec-then-enc-toggle":
			mxj.XMLEscapeCharsDecoder(true)
			mxj.XMLEscapeChars()
		default:
			mxj.XMLEscapeCharsDecoder(true)
		}
	}
	if hist == "lenient-custom-decoder" {
		// CustomDecoder configures how documents are READ (its documented use: Strict:false); what the encoders'
		// validity check accepts as well-formed does not depend on it
		mxj.CustomDecoder = &xml.Decoder{Strict: false, Entity: xml.HTMLEntity, AutoClose: xml.HTMLAutoClose}
	}
	if valid {
		mxj.XmlCheckIsValid(true)
	}
}

func c05Encode(m mxj.Map, ms mxj.MapSeq, enc string) ([]byte, error) {
	switch enc {
	case "Map.Xml":
		return m.Xml()
	case "Map.XmlIndent":
		return m.XmlIndent("", "  ")
	case "MapSeq.Xml":
		return ms.Xml()
	default:
		return ms.XmlIndent("", "  ")
	}
}

func c05Check(c *Ctx, s, pos, enc, mode string, valid bool, hist string) (nontrivial bool) {
	doc := c05Doc(s, pos)
	src := []byte(renderDoc(doc, rvDefault)) // correctly escaped document holding s
	cas := func() interface{} {
		return c05Case{S: s, Pos: pos, Enc: enc, Mode: mode, Valid: valid, Hist: hist, Pol: rt.OrderPolicy, Bytes: c05Bytes}
	}
	shape := pos
	isSeq := strings.HasPrefix(enc, "MapSeq")
	// plain decode of the source: the values the document denotes
	resetOptions()
	var refM mxj.Map
	var refS mxj.MapSeq
	var err error
	listRoot := pos == "list-members"
	if listRoot && isSeq {
		return false
	}
	if isSeq {
		refS, err = mxj.NewMapXmlSeq(src)
	} else {
		refM, err = mxj.NewMapXml(src)
	}
	if err != nil {
		c.Broken("C05: source document does not decode: %q %v", src, err)
		return
	}
	// list-members: the Map {"e":[s,"v"]} - a single key whose value is a list of non-map members
	// (Map.Xml wraps it in the default root tag)
	toList := func(m mxj.Map) mxj.Map {
		if !listRoot || m == nil {
			return m
		}
		return mxj.Map{"e": []interface{}{m["e"], "v"}}
	}
	refM = toList(refM)
	if listRoot {
		// what a plain decode of the default-root wrapping denotes
		refM = mxj.Map{"doc": map[string]interface{}{"e": []interface{}{refM["e"].([]interface{})[0], "v"}}}
	}
	c05SetMode(mode, valid, hist)
	var m mxj.Map
	var ms mxj.MapSeq
	var out []byte
	st, pan := protect(func() {
		// decode under the mode (only decoder-side escaping changes the decode)
		if isSeq {
			ms, err = mxj.NewMapXmlSeq(src)
		} else {
			m, err = mxj.NewMapXml(src)
			m = toList(m)
			if c05Bytes && err == nil {
				m = mxj.Map(bytesify(map[string]interface{}(m)).(map[string]interface{}))
			}
		}
		if err != nil {
			return
		}
		out, err = c05Encode(m, ms, enc)
	})
	c.S.Transitions += 2
	c.S.Validated++
	if pan {
		c.Violate(enc, "panic", shape, cas, nil, fmt.Sprintf("s=%q %s", s, st))
		return
	}
	c.Retain(enc, out, cas)
	switch mode {
	case "enc", "dec":
		// (a)/(b): output well formed and denotes the original values
		if err != nil {
			c.Violate(enc, "error-with-escaping-on", shape, cas, nil, fmt.Sprintf("s=%q err=%v", s, err))
			return true
		}
		if werr := wellFormed(out); werr != nil {
			c.Violate(enc, "well-formed", shape, cas, nil, fmt.Sprintf("s=%q mode=%s hist=%s output=%q %v", s, mode, hist, out, werr))
			return true
		}
		resetOptions()
		var back interface{}
		var want interface{}
		if isSeq {
			b, e := mxj.NewMapXmlSeq(out)
			back, err, want = map[string]interface{}(b), e, map[string]interface{}(refS)
		} else {
			b, e := mxj.NewMapXml(out)
			back, err, want = map[string]interface{}(b), e, map[string]interface{}(refM)
		}
		c.S.Transitions++
		if err != nil || !deepEq(back, want) {
			c.Violate(enc, "value-preserved", shape, cas, nil, fmt.Sprintf("s=%q mode=%s hist=%s\n output=%q\n decodes to %s\n expected   %s err=%v", s, mode, hist, out, dump(back), dump(want), err))
		}
	case "off":
		if valid {
			// (c): an error, or well-formed output
			if err == nil {
				if werr := wellFormed(out); werr != nil {
					if tokenizes(out) {
						// every token is fine for encoding/xml, but there is content after the root element
						shape = "tokenizable-content-after-root"
					}
					c.Violate(enc, "invalid-output-without-error", shape, cas, nil, fmt.Sprintf("s=%q output=%q is not well formed (%v) yet no error was returned", s, out, werr))
				}
			}
		}
	}
	c.Outcome(fmt.Sprintf("%s|%v", out, err != nil))
	return strings.ContainsAny(s, "&<>\"'")
}

func c05Run(c *Ctx) {
	mustBeDefault(c)
	c.S.Rule = "(validity checking with escaping off also with CustomDecoder set to a lenient decoder - Strict:false, HTML entities, auto-close -, which configures reading only) cases = (string, position, encoder, escaping mode, validity check, option history): strings are all words of <= K tokens over {a, 1, space, tab, newline, carriage return, &, <, >, \", ', e-acute, &amp;, &#x41;, ]]>, <![CDATA[, </r>, /, a run of multi-byte characters whose code points end in the byte of an XML special character (U+2026 U+2022 U+0126 U+203C U+203E U+2027 U+4E26), U+FFFD}; for the Map encoders also with the values held as []byte (words of <= 2 tokens); positions element text, attribute value, text beside an attribute, text before a child element, the same three directly in the root element, and a member of a top-level list (default-root wrapping); encoders Map.Xml, Map.XmlIndent, MapSeq.Xml, MapSeq.XmlIndent; modes encoder-side escaping, decoder-side escaping (reached by the five documented call histories of the two switches), escaping off with validity check on/off. Oracle: with escaping the output is well formed and a plain decode gives exactly the values a plain decode of the correctly-escaped source gives; with escaping off and validity on: error or well-formed output; always no panic. non-trivial = the string contains an XML special character."
	c.S.Assumptions = []string{"the Map/MapSeq under test is obtained by decoding a correctly escaped document that holds the string (decoders validated by C01/C04)"}
	k := 3
	if c.Thorough {
		k = 4
	}
	alpha := []string{"a", "1", " ", "\t", "\n", "\r", "&", "<", ">", "\"", "'", "é", "&amp;", "&#x41;", "]]>", "<![CDATA[", "</r>", "/", "\u2026\u2022\u0126\u203c\u203e\u2027\u4e26", "\ufffd"}
	var words []string
	seqs(alpha, k, func(s []string) { words = append(words, strings.Join(s, "")) })
	if c.Shard == 0 {
		c.Count("strings", int64(len(words)))
	}
	type mode struct {
		mode  string
		valid bool
		hist  string
	}
	modes := []mode{{"enc", false, ""}, {"enc", true, ""}, {"dec", false, ""}, {"dec", false, "enc-then-dec"}, {"dec", false, "enc-then-dec-toggle"},
		{"dec", false, "dec-then-enc"}, {"dec", false, "dec-then-enc-toggle"}, {"dec", true, ""}, {"off", true, ""}, {"off", false, ""}, {"off", true, "lenient-custom-decoder"}}
	for _, pos := range []string{"text", "attr", "text+attr", "text+children", "root-text", "root-attr", "root-text+children", "list-members"} {
		for _, enc := range []string{"Map.Xml", "Map.XmlIndent", "MapSeq.Xml", "MapSeq.XmlIndent"} {
			for _, md := range modes {
				for wi, w := range words {
					if md.hist == "lenient-custom-decoder" && wi >= len(alpha)*(len(alpha)+1) && !c.Thorough {
						continue // words of <= 2 tokens in quick
					}
					if md.hist != "" && len(w) > 2 && !c.Thorough && wi%4 != 0 {
						continue // alternative histories: all short strings, a quarter of the longer ones in quick
					}
					if !c.Mine() {
						continue
					}
					c.S.States++
					c.S.Evaluations++
					c.S.Schedules++
					rt.OrderPolicy = rt.PolicySorted
					if wi%2 == 1 {
						rt.OrderPolicy = rt.PolicyReverse
					}
					if c05Check(c, w, pos, enc, md.mode, md.valid, md.hist) {
						c.S.Nontrivial++
						c.Sample(map[string]interface{}{"string": w, "position": pos, "encoder": enc, "mode": md})
					}
					// the same Map with its values held as []byte (Map encoders, default histories, words of <= 2 tokens)
					if strings.HasPrefix(enc, "Map.") && md.hist == "" && wi < len(alpha)*(len(alpha)+1) {
						c05Bytes = true
						c05Check(c, w, pos, enc, md.mode, md.valid, md.hist)
						c05Bytes = false
						c.S.Schedules++
					}
				}
			}
		}
	}
	rt.OrderPolicy = rt.PolicySorted
	resetOptions()
}

// tokenizes: encoding/xml's Token() reads the text to EOF without error (what XmlCheckIsValid tests).
func tokenizes(x []byte) bool {
	d := xml.NewDecoder(bytes.NewReader(x))
	for {
		_, err := d.Token()
		if err == io.EOF {
			return true
		}
		if err != nil {
			return false
		}
	}
}
