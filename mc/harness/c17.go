package main

import (
	"bytes"
	"encoding/json"
	"fmt"
	"math"
	"os"
	"os/exec"
	"strconv"
	"strings"
	"sync"
	"time"

	mxj "github.com/clbanning/mxj/v2"
	rt "github.com/clbanning/mxj/v2/zzverifrt"
)

// C17 — Queries and encoders never modify their receiver and may run concurrently.

type c17Case struct {
	Kind    string          `json:"kind"` // purity | interleave | race
	Op      string          `json:"op,omitempty"`
	Map     json.RawMessage `json:"map,omitempty"`
	Threads [][]string      `json:"threads,omitempty"`
	Pol     int             `json:"order_policy,omitempty"`
}

func init() {
	register(&Property{ID: "C17", Run: c17Run, Replay: func(c *Ctx, cas json.RawMessage, ch []int) {
		var k c17Case
		json.Unmarshal(cas, &k)
		resetOptions()
		switch k.Kind {
		case "purity":
			m := retype(withSpare(fromJSON(string(k.Map)))).(map[string]interface{})
			rt.OrderPolicy = k.Pol
			c17Purity(c, m, k.Op)
			rt.OrderPolicy = rt.PolicySorted
		case "interleave":
			c17Init()
			runWith(ch, func() { c17Interleave(c, k.Threads, ch, nil) })
		case "race":
			c17RacePass(c)
		}
	}})
}

// ---------------------------------------------------------------- read-only operations

type c17Op struct {
	name string
	f    func(m mxj.Map) string // result rendered
}

func c17ReadOnlyOps() []c17Op {
	r := func(v interface{}, err error) string { return fmt.Sprintf("%s|%v", dump(v), err != nil) }
	srt := func(v []interface{}, err error) string {
		return fmt.Sprintf("%v|%v", sortedCopy(dumpSeq(v)), err != nil)
	}
	return []c17Op{
		{"ValuesForPath(*.k)", func(m mxj.Map) string { return srt(m.ValuesForPath("*.k")) }},
		{"ValuesForPath(r.k)", func(m mxj.Map) string { return r(m.ValuesForPath("r.k")) }},
		{"ValuesForPath(r.k[1])", func(m mxj.Map) string { return r(m.ValuesForPath("r.k[1]")) }},
		{"ValuesForPath(r.*,subkey)", func(m mxj.Map) string { return srt(m.ValuesForPath("r.*", "k:*")) }},
		{"ValuesForPath(r,subkey)", func(m mxj.Map) string { return srt(m.ValuesForPath("r", "k:*")) }},
		{"ValuesForPath(r,negated-subkey)", func(m mxj.Map) string { return srt(m.ValuesForPath("r", "!k:*")) }},
		{"ValuesForPath(r.k,subkey)", func(m mxj.Map) string { return srt(m.ValuesForPath("r.k", "-x:*")) }},
		{"Exists(r,subkey)", func(m mxj.Map) string { v, e := m.Exists("r", "k:*"); return r(v, e) }},
		{"ValuesForKey(r,subkey)", func(m mxj.Map) string { return srt(m.ValuesForKey("r", "k:*")) }},
		{"ValuesForKey(k,negated-subkey)", func(m mxj.Map) string { return srt(m.ValuesForKey("k", "!-x:*")) }},
		{"ValueForPath(r.k)", func(m mxj.Map) string { return r(m.ValueForPath("r.k")) }},
		{"ValueForPathString(r.k)", func(m mxj.Map) string { v, e := m.ValueForPathString("r.k"); return r(v, e) }},
		{"ValuesForKey(k)", func(m mxj.Map) string { return srt(m.ValuesForKey("k")) }},
		{"ValuesForKey(*)", func(m mxj.Map) string { return srt(m.ValuesForKey("*")) }},
		{"ValueForKey(k)", func(m mxj.Map) string { _, e := m.ValueForKey("k"); return fmt.Sprint(e != nil) }},
		{"PathsForKey(k)", func(m mxj.Map) string { return fmt.Sprint(sortedCopy(m.PathsForKey("k"))) }},
		{"PathForKeyShortest(k)", func(m mxj.Map) string { return fmt.Sprint(len(strings.Split(m.PathForKeyShortest("k"), "."))) }},
		{"LeafNodes", func(m mxj.Map) string { return fmt.Sprint(sortLeafs(m.LeafNodes())) }},
		{"LeafNodes(noattr)", func(m mxj.Map) string { return fmt.Sprint(sortLeafs(m.LeafNodes(true))) }},
		{"LeafPaths", func(m mxj.Map) string { return fmt.Sprint(sortedCopy(m.LeafPaths())) }},
		{"LeafValues", func(m mxj.Map) string { return fmt.Sprint(sortedCopy(dumpSeq(m.LeafValues()))) }},
		{"Exists(r.k)", func(m mxj.Map) string { v, e := m.Exists("r.k"); return r(v, e) }},
		{"Elements(r)", func(m mxj.Map) string { v, e := m.Elements("r"); return r(v, e) }},
		{"Attributes(r)", func(m mxj.Map) string { v, e := m.Attributes("r"); return r(v, e) }},
		{"Root", func(m mxj.Map) string { v, e := m.Root(); return r(v, e) }},
		{"Xml", func(m mxj.Map) string { v, e := m.Xml(); return r(string(v), e) }},
		{"XmlIndent", func(m mxj.Map) string { v, e := m.XmlIndent("", " "); return r(string(v), e) }},
		{"XmlWriter", func(m mxj.Map) string { var b bytes.Buffer; e := m.XmlWriter(&b); return r(b.String(), e) }},
		{"Json", func(m mxj.Map) string { v, e := m.Json(); return r(string(v), e) }},
		{"Json(safe)", func(m mxj.Map) string { v, e := m.Json(true); return r(string(v), e) }},
		{"JsonIndent", func(m mxj.Map) string { v, e := m.JsonIndent("", " "); return r(string(v), e) }},
		{"JsonWriterRaw", func(m mxj.Map) string { var b bytes.Buffer; v, e := m.JsonWriterRaw(&b); return r(string(v), e) }},
		{"Gob", func(m mxj.Map) string { _, e := m.Gob(); return fmt.Sprint(e != nil) }},
		{"Copy", func(m mxj.Map) string { v, e := m.Copy(); return r(map[string]interface{}(v), e) }},
		{"StringIndent", func(m mxj.Map) string { return m.StringIndent() }},
		{"StringIndentNoTypeInfo", func(m mxj.Map) string { return m.StringIndentNoTypeInfo() }},
		{"NewMap(r.k:x)", func(m mxj.Map) string { v, e := m.NewMap("r.k:x", "r:y.z"); return r(map[string]interface{}(v), e) }},
		{"AnyXml", func(m mxj.Map) string { v, e := mxj.AnyXml(map[string]interface{}(m)); return r(string(v), e) }},
		{"MapSeq.Xml", func(m mxj.Map) string { v, e := mxj.MapSeq(m).Xml(); return r(string(v), e) }},
		{"MapSeq.XmlIndent", func(m mxj.Map) string { v, e := mxj.MapSeq(m).XmlIndent("", " "); return r(string(v), e) }},
		{"MapSeq.StringIndent", func(m mxj.Map) string { return mxj.MapSeq(m).StringIndent() }},
	}
}

// c17Purity: layers 1 and 2 for one (receiver, operation).
func c17Purity(c *Ctx, m map[string]interface{}, opName string) {
	var op *c17Op
	for _, o := range c17ReadOnlyOps() {
		if o.name == opName {
			oo := o
			op = &oo
		}
	}
	if op == nil {
		return
	}
	before := dump(m)
	cas := func() interface{} {
		return c17Case{Kind: "purity", Op: opName, Map: json.RawMessage(jsonOf(untype(m))), Pol: rt.OrderPolicy}
	}
	seqShaped := strings.HasPrefix(opName, "MapSeq")
	rt.Unfreeze()
	rt.Freeze(m)
	rt.ResetGlobals()
	rt.LogGlobals = true
	_, pan := protect(func() { op.f(mxj.Map(m)) })
	rt.LogGlobals = false
	writes := append([]string(nil), rt.FrozenWrites...)
	gw := rt.WrittenGlobals()
	rt.Unfreeze()
	c.S.Transitions++
	c.S.Validated++
	if pan && !seqShaped {
		// (panics are C15's business; a MapSeq method on a Map that is not sequence-shaped may panic)
		return
	}
	if len(writes) > 0 || dump(m) != before {
		c.Violate(opName, "receiver-modified", "purity", cas, nil, fmt.Sprintf("receiver before=%s\n receiver after =%s\n monitored stores into the receiver: %v", before, dump(m), writes))
		return
	}
	if opName == "Copy" {
		// Copy shares no mutable structure with the original (container identities are disjoint)
		if cp, err := mxj.Map(m).Copy(); err == nil {
			a, b := map[uintptr]bool{}, map[uintptr]bool{}
			rt.Containers(m, a)
			rt.Containers(map[string]interface{}(cp), b)
			byteBackings(m, a)
			byteBackings(map[string]interface{}(cp), b)
			for p := range a {
				if b[p] {
					c.Violate(opName, "copy-shares-structure", "purity", cas, nil, fmt.Sprintf("receiver %s: the copy shares a map, list or byte slice with the original", before))
					return
				}
			}
		}
	}
	if len(gw) > 0 {
		// informational: a read-only operation that writes package state (cache, pool) is not wrong by
		// itself - a synchronised cache is race-free. Its effects are judged behaviourally: results
		// under every interleaving (layer 3), retained results, and the race-detector pass (layer 4).
		c.Count("read_only_operations_that_wrote_package_state", 1)
	}
}

// ---------------------------------------------------------------- cooperative scheduler

type coop struct {
	n      int
	resume []chan struct{}
	done   []bool
	cur    int
	fin    chan struct{}
	panics []string
	points int64
}

func (s *coop) enabled() []int {
	var e []int
	if !s.done[s.cur] {
		e = append(e, s.cur)
	}
	for i := 0; i < s.n; i++ {
		if i != s.cur && !s.done[i] {
			e = append(e, i)
		}
	}
	return e
}

func (s *coop) yield() {
	s.points++
	en := s.enabled()
	if len(en) < 2 {
		return
	}
	next := en[rt.Choose(rt.KindSched, len(en))]
	if next != s.cur {
		prev := s.cur
		s.cur = next
		s.resume[next] <- struct{}{}
		<-s.resume[prev]
	}
}

func (s *coop) exit(i int) {
	s.done[i] = true
	en := s.enabled()
	if len(en) == 0 {
		close(s.fin)
		return
	}
	freeNext = true // choosing the successor of a finished thread is not a preemption
	next := en[rt.Choose(rt.KindSched, len(en))]
	freeNext = false
	s.cur = next
	s.resume[next] <- struct{}{}
}

// runThreads executes the thread bodies under the cooperative scheduler; results[i] per thread.
func runThreads(bodies []func() string) (results []string, panics []string, points int64) {
	n := len(bodies)
	s := &coop{n: n, resume: make([]chan struct{}, n), done: make([]bool, n), fin: make(chan struct{}), panics: make([]string, n)}
	results = make([]string, n)
	for i := range s.resume {
		s.resume[i] = make(chan struct{})
	}
	for i := 0; i < n; i++ {
		i := i
		go func() {
			<-s.resume[i]
			st, pan := protect(func() { results[i] = bodies[i]() })
			if pan {
				s.panics[i] = st
			}
			s.exit(i)
		}()
	}
	saved := rt.Sched
	rt.Sched = func(site int) { s.yield() }
	s.cur = 0
	s.resume[0] <- struct{}{}
	<-s.fin
	rt.Sched = saved
	return results, s.panics, s.points
}

// ---------------------------------------------------------------- interleaving menu

const c17SharedJSON = `{"r":{"-x":"1","k":["a",{"k":"b","-y":"2"}],"e":"","#text":"t"}}`
const c17SeqDoc = `<r x="1"><k>a</k><e/><k>b</k></r>`

var (
	c17Shared    map[string]interface{}
	c17SharedSeq map[string]interface{}
)

type oneByteReader struct{ r *strings.Reader }

func (o oneByteReader) Read(p []byte) (int, error) { return o.r.Read(p) }

func c17Menu() map[string]func() string {
	r := func(v interface{}, err error) string { return fmt.Sprintf("%s|%v", dump(v), err != nil) }
	srt := func(v []interface{}, err error) string {
		return fmt.Sprintf("%v|%v", sortedCopy(dumpSeq(v)), err != nil)
	}
	S := func() mxj.Map { return mxj.Map(c17Shared) }
	return map[string]func() string{
		"decode-xml-cast": func() string {
			m, e := mxj.NewMapXml([]byte(`<d a="1"><b>true</b><c>x</c></d>`), true)
			return r(map[string]interface{}(m), e)
		},
		"decode-xml-reader": func() string {
			m, e := mxj.NewMapXmlReader(oneByteReader{strings.NewReader(`<p q="2"><s>t</s></p>`)})
			return r(map[string]interface{}(m), e)
		},
		"decode-xml-reader-raw": func() string {
			m, raw, e := mxj.NewMapXmlReaderRaw(oneByteReader{strings.NewReader(`<w><z>1</z></w>`)})
			return r(map[string]interface{}(m), e) + string(raw)
		},
		"decode-seq": func() string {
			m, e := mxj.NewMapXmlSeq([]byte(`<d a="1"><!--c--><b>v</b></d>`))
			return r(map[string]interface{}(m), e)
		},
		"decode-json": func() string {
			m, e := mxj.NewMapJson([]byte(`{"j":[1,{"k":"<"}]}`))
			return r(map[string]interface{}(m), e)
		},
		"decode-json-reader": func() string {
			m, e := mxj.NewMapJsonReader(strings.NewReader(` {"j":"}"} `))
			return r(map[string]interface{}(m), e)
		},
		"shared-Xml":           func() string { v, e := S().Xml(); return r(string(v), e) },
		"shared-XmlIndent":     func() string { v, e := S().XmlIndent("", " "); return r(string(v), e) },
		"shared-Json":          func() string { v, e := S().Json(); return r(string(v), e) },
		"shared-Json-safe":     func() string { v, e := S().Json(true); return r(string(v), e) },
		"shared-Copy":          func() string { v, e := S().Copy(); return r(map[string]interface{}(v), e) },
		"shared-ValuesForPath": func() string { return srt(S().ValuesForPath("*.k")) },
		"shared-ValuesForKey":  func() string { return srt(S().ValuesForKey("k")) },
		"shared-PathsForKey":   func() string { return fmt.Sprint(sortedCopy(S().PathsForKey("k"))) },
		"shared-LeafNodes":     func() string { return fmt.Sprint(sortLeafs(S().LeafNodes())) },
		"shared-Gob": func() string {
			g, e := S().Gob()
			m, e2 := mxj.NewMapGob(g)
			return r(map[string]interface{}(m), e) + fmt.Sprint(e2 != nil)
		},
		"sharedseq-Xml": func() string { v, e := mxj.MapSeq(c17SharedSeq).Xml(); return r(string(v), e) },
		// private round trips over documents that differ from one another in every name and value: scratch space
		// shared between two calls shows only when the calls work on different content
		"private-seq-roundtrip-A": func() string {
			m, e := mxj.NewMapXmlSeq([]byte(`<d z="1" a="2" m="3"><b y="4" c="5">v</b><!--n--></d>`))
			if e != nil {
				return r(nil, e)
			}
			v, e := mxj.MapSeq(m).Xml()
			return r(string(v), e)
		},
		"private-seq-roundtrip-B": func() string {
			m, e := mxj.NewMapXmlSeq([]byte(`<e q="9" p="8"><f k="7" j="6" i="5" h="4">w</f><g/></e>`))
			if e != nil {
				return r(nil, e)
			}
			v, e := mxj.MapSeq(m).XmlIndent("", " ")
			return r(string(v), e)
		},
		"private-roundtrip-B": func() string {
			m, _ := mxj.NewMapXml([]byte(`<x q="2" p="3"><y r="4" o="5">&amp;</y><y>t</y></x>`))
			v, e := m.XmlIndent("", " ")
			return r(string(v), e)
		},
		"private-roundtrip-C": func() string {
			// three levels, another (prefix, indent) pair than every other indenting operation of the menu
			m, _ := mxj.NewMapXml([]byte(`<u><v><w n="1">1</w><w>2</w></v><z><y>3</y></z></u>`))
			v, e := m.XmlIndent(" ", "\t")
			return r(string(v), e)
		},
		"private-json-roundtrip-B": func() string {
			m, e := mxj.NewMapJson([]byte(`{"u":[true,{"v":"w>"}],"t":null}`))
			if e != nil {
				return r(nil, e)
			}
			v, e := m.Json()
			w, e2 := m.JsonIndent("", " ")
			return r(string(v), e) + r(string(w), e2)
		},
		"private-roundtrip": func() string {
			m, _ := mxj.NewMapXml([]byte(`<a b="1"><c>&lt;</c></a>`))
			v, e := m.Xml()
			return r(string(v), e)
		},
	}
}

func c17Body(ops []string, menu map[string]func() string) func() string {
	return func() string {
		var out []string
		for _, o := range ops {
			out = append(out, menu[o]())
		}
		return strings.Join(out, " || ")
	}
}

// c17Interleave runs one schedule of the given threads and checks it against the sequential results.
func c17Interleave(c *Ctx, threads [][]string, choices []int, seqResults []string) {
	menu := c17Menu()
	if seqResults == nil {
		for _, t := range threads {
			seqResults = append(seqResults, c17Body(t, menu)())
		}
	}
	cas := c17Case{Kind: "interleave", Threads: threads}
	sharedBefore := dump(c17Shared) + dump(c17SharedSeq)
	var bodies []func() string
	for _, t := range threads {
		bodies = append(bodies, c17Body(t, menu))
	}
	rt.Unfreeze()
	rt.Freeze(c17Shared)
	rt.Freeze(c17SharedSeq)
	rt.ResetGlobals()
	rt.LogGlobals = true
	res, pans, points := runThreads(bodies)
	rt.LogGlobals = false
	writes := append([]string(nil), rt.FrozenWrites...)
	gw := rt.WrittenGlobals()
	rt.Unfreeze()
	c.S.Transitions += int64(len(threads))
	c.S.Validated++
	c.S.Schedules++
	c.Count("scheduling_points", points)
	c.Outcome(strings.Join(res, "##"))
	shape := fmt.Sprintf("threads=%d", len(threads))
	desc := fmt.Sprintf("threads=%v schedule=%v", threads, choices)
	for i, p := range pans {
		if p != "" {
			c.Violate("interleaving", "panic", shape, cas, append([]int(nil), choices...), fmt.Sprintf("%s\n thread %d panicked: %s", desc, i, p))
			return
		}
	}
	for i := range res {
		if res[i] != seqResults[i] {
			c.Violate("interleaving", "result-differs-from-sequential", shape, cas, append([]int(nil), choices...), fmt.Sprintf("%s\n thread %d (%v)\n interleaved: %s\n sequential : %s", desc, i, threads[i], short(res[i], 500), short(seqResults[i], 500)))
			return
		}
	}
	if len(writes) > 0 || dump(c17Shared)+dump(c17SharedSeq) != sharedBefore {
		c.Violate("interleaving", "shared-map-modified", shape, cas, append([]int(nil), choices...), fmt.Sprintf("%s\n stores into the shared Map: %v", desc, writes))
		return
	}
	if len(gw) > 0 {
		c.Count("schedules_in_which_package_state_was_written", 1) // informational, see layer 1
	}
}

func c17Init() {
	c17Shared = fromJSON(c17SharedJSON).(map[string]interface{})
	ms, err := mxj.NewMapXmlSeq([]byte(c17SeqDoc))
	if err != nil {
		panic(err)
	}
	c17SharedSeq = ms
}

func c17Run(c *Ctx) {
	mustBeDefault(c)
	c17Init()
	c.S.Rule = "layer 1+2 (purity, E-input): every read-only operation (41: all ValuesFor*/PathsFor*/Leaf*/Exists/Elements/Attributes/Root queries, all XML/JSON/gob encoders and Writer forms, Copy, StringIndent, NewMap, AnyXml, MapSeq encoders) x every Map template with <= N nodes over keys {r,k,-x,#text} plus MapSeqs decoded from XML documents Maps holding []byte values, and wide receivers (lists of 31, 32, 33, 64, 65 members with spare capacity, the key present deeper as well), with the whole receiver frozen: no monitored store into any container reachable from it, canonical dump unchanged, the package-level variables written are logged (reported as a counter; a synchronised cache is not a violation by itself); ascending and descending map order. layer 3 (interleavings, E-choice): a cooperative scheduler runs 2 threads (thorough: also 3) with 1-2 operations each from a menu of 23 (decode XML with cast, from plain readers incl. the raw form, decode sequence-XML, decode JSON and from a reader, Xml, XmlIndent, Json, Copy, ValuesForPath with wildcard, ValuesForKey, PathsForKey, LeafNodes, Gob round trip, MapSeq.Xml on shared read-only Maps, private round trips - XML, sequence-XML compact and indented, JSON - over documents that differ from one another in every name and value, the indenting ones with different (prefix, indent) arguments and up to three levels); scheduling points at every function entry, loop back-edge, map-iteration step and package-variable access of the instrumented mxj; ALL schedules with <= P preemptions; oracle per schedule: every thread's result equals its sequential result, the shared Maps are unchanged (dump + store monitor). layer 4 (supplementary): the same bodies free-running on the uninstrumented build under the Go race detector - first from a cold start (the first calls of the process run concurrently), then in rounds that also run 18 operations whose argument texts (tags, keys, paths, sub-key specs, key pairs) are new to the process, one text shared by all 8 goroutines and one private to each. non-trivial = schedules with at least one preemption."
	c.S.Assumptions = []string{"sequentially consistent interleavings at hooked points; conflicts through unhooked writes inside the standard library are left to the race-detector pass", "package options are not changed concurrently (as the property states)"}
	// ---- layers 1 and 2
	n := 5
	if c.Thorough {
		n = 6
	}
	ops := c17ReadOnlyOps()
	g := newGen(GenP{Keys: []string{"r", "k", "-x", "#text"}, MaxList: 3, MaxKeys: 3, EmptyList: true, EmptyMap: true, ListInList: true, Leaves: []interface{}{"s", 1.5, nullLeaf{}}})
	g.rootMaps(n, func(t *T) {
		for _, op := range ops {
			if strings.HasPrefix(op.name, "MapSeq") {
				continue
			}
			if !c.Mine() {
				continue
			}
			c.S.States++
			c.S.Evaluations++
			for _, pol := range []int{rt.PolicySorted, rt.PolicyReverse} {
				rt.OrderPolicy = pol
				c17Purity(c, inst(t, nil).(map[string]interface{}), op.name)
			}
			rt.OrderPolicy = rt.PolicySorted
		}
	})
	// Maps holding []byte values (documented as supported by the encoders): flat and below a root key
	for _, mk := range []func() map[string]interface{}{
		func() map[string]interface{} { return map[string]interface{}{"a": []byte("hello"), "k": "s", "r": 1.5} },
		func() map[string]interface{} { return map[string]interface{}{"a": []byte("hello"), "k": []byte("<&>")} },
		func() map[string]interface{} {
			return map[string]interface{}{"r": map[string]interface{}{"-x": []byte("v"), "#text": []byte("t"), "k": []interface{}{[]byte("p"), "q"}}}
		},
	} {
		for _, op := range ops {
			if strings.HasPrefix(op.name, "MapSeq") || !c.Mine() {
				continue
			}
			c.S.States++
			c.S.Evaluations++
			c17Purity(c, mk(), op.name)
		}
	}
	// receivers holding a value the JSON encoder rejects (NaN / Inf arrive through cast decoding with CastNanInf):
	// Copy may fail, but a Copy that succeeds shares nothing
	for _, mk := range []func() map[string]interface{}{
		func() map[string]interface{} {
			return map[string]interface{}{"r": map[string]interface{}{"k": math.NaN()}, "k": "s"}
		},
		func() map[string]interface{} {
			return map[string]interface{}{"r": []interface{}{math.Inf(1), map[string]interface{}{"k": "v"}}, "k": map[string]interface{}{"k": "w"}}
		},
	} {
		if c.Mine() {
			c.S.States++
			c.S.Evaluations++
			c17Purity(c, mk(), "Copy")
		}
	}
	// wide receivers: lists around the internal initial result capacity (32) and its doubling, with the key
	// present deeper as well; built with spare capacity like decoder-built lists
	for _, width := range []int{31, 32, 33, 64, 65} {
		for _, op := range ops {
			if strings.HasPrefix(op.name, "MapSeq") || !c.Mine() {
				continue
			}
			c.S.States++
			c.S.Evaluations++
			for _, pol := range []int{rt.PolicySorted, rt.PolicyReverse} {
				rt.OrderPolicy = pol
				wl := make([]interface{}, width, width+3)
				ws := make([]interface{}, width, width+3)
				for i := range wl {
					wl[i] = map[string]interface{}{"k": "m" + strconv.Itoa(i), "-x": "a"}
					ws[i] = "s" + strconv.Itoa(i)
				}
				wl[width/2] = map[string]interface{}{"k": []interface{}{"deep", map[string]interface{}{"k": "deeper"}}}
				c17Purity(c, map[string]interface{}{"r": map[string]interface{}{"k": wl, "#text": "t"}, "k": ws}, op.name)
				c17Purity(c, map[string]interface{}{"r": wl, "k": map[string]interface{}{"k": ws}}, op.name)
			}
			rt.OrderPolicy = rt.PolicySorted
		}
	}
	for nn := 1; nn <= 3; nn++ {
		for _, base := range baseTrees(nn, "r", []string{"a", "b"}, 3) {
			docs := []*XElem{base}
			for _, d := range c04Decos(base, false) {
				if doc, ok := applyDecos(base, []Deco{d}); ok && c04InDomain(doc) {
					docs = append(docs, doc)
				}
			}
			for _, doc := range docs {
				for _, op := range ops {
					if !strings.HasPrefix(op.name, "MapSeq") && op.name != "LeafNodes" && op.name != "ValuesForKey(*)" && op.name != "Json" {
						continue
					}
					if !c.Mine() {
						continue
					}
					ms, err := mxj.NewMapXmlSeq([]byte(renderDoc(doc, rvDefault)))
					if err != nil {
						continue
					}
					c.S.States++
					c.S.Evaluations++
					c17Purity(c, ms, op.name)
					// the same MapSeq after a trip through JSON (sequence numbers are float64 then)
					c17Purity(c, withSpare(fromJSON(jsonOf(map[string]interface{}(ms)))).(map[string]interface{}), op.name)
				}
			}
		}
	}
	// ---- layer 3
	menu := c17Menu()
	var names []string
	for k := range menu {
		names = append(names, k)
	}
	names = sortedCopy(names)
	bound := 1
	var combos [][][]string
	for i, a := range names {
		for _, b := range names[i:] {
			combos = append(combos, [][]string{{a}, {b}})
		}
	}
	// two operations per thread on a selection, and three threads in thorough
	sel := []string{"decode-xml-reader", "decode-xml-reader-raw", "shared-Json", "shared-Xml", "shared-Copy", "decode-json-reader", "shared-Gob"}
	for _, a := range sel {
		for _, b := range sel {
			combos = append(combos, [][]string{{a, b}, {b, a}})
		}
	}
	if c.Thorough {
		for _, a := range sel {
			for _, b := range sel {
				combos = append(combos, [][]string{{a}, {b}, {"shared-ValuesForPath"}})
			}
		}
	}
	for ci, th := range combos {
		if !c.Mine() {
			continue
		}
		th := th
		var seqRes []string
		for _, t := range th {
			seqRes = append(seqRes, c17Body(t, menu)())
		}
		b := bound
		if c.Thorough || ci%9 == 0 {
			b = 2 // two preemptions on a ninth of the pairs in quick, on all in thorough
		}
		if c.Thorough && len(th) == 2 && len(th[0]) == 1 && ci%5 == 0 {
			b = 3
		}
		c.S.States++
		c.S.Evaluations++
		ex := &Explorer{Bound: b, MaxExecs: 300000,
			Run:   func() { c17Interleave(c, th, curExec.prefix, seqRes) },
			Check: func(x *Exec) bool { return c.S.ViolationCount < 1000 }}
		ex.Explore()
		if ex.Execs > 1 {
			c.S.Nontrivial += ex.Execs - 1
		}
		if ex.CapHit {
			c.Cap("E-choice executions per thread combination capped at 300000")
			c.S.Exhaustive = false
		}
		if ex.Diverged != "" {
			c.Broken("C17: %s", ex.Diverged)
		}
		if b > c.S.BoundCompleted {
			c.S.BoundCompleted = b
		}
		if c.sampleN < 3 {
			c.Sample(map[string]interface{}{"threads": th, "preemption_bound": b, "schedules": ex.Execs, "max_scheduling_points": ex.MaxPoints})
		}
		c.sampleN++
	}
	// ---- layer 4: free-running race-detector pass on the uninstrumented build (shard 0 only)
	if c.Shard == 0 {
		c17RacePass(c)
	}
	resetOptions()
}

func c17RacePass(c *Ctx) {
	bin := os.Getenv("MXJ_RACE_BIN")
	if bin == "" {
		return
	}
	cmd := exec.Command(bin, "racepass")
	cmd.Env = append(os.Environ(), "GORACE=exitcode=66 halt_on_error=1", "GOMAXPROCS=8")
	out, err := cmd.CombinedOutput()
	c.S.Transitions++
	if err != nil {
		if ee, ok := err.(*exec.ExitError); ok && (ee.ExitCode() == 66 || ee.ExitCode() == 67) {
			c.Violate("race-detector-pass", "data-race", "free-running", c17Case{Kind: "race"}, nil, short(string(out), 3000))
		} else {
			c.Broken("C17: race pass failed to run: %v %s", err, short(string(out), 500))
		}
		return
	}
	c.Count("race_pass_ok", 1)
	var it int
	fmt.Sscanf(lastLine(string(out)), "racepass ok iterations=%d", &it)
	c.Count("race_pass_iterations", int64(it))
}

func lastLine(s string) string {
	l := strings.Split(strings.TrimSpace(s), "\n")
	return l[len(l)-1]
}

// racePass: the layer-3 bodies, free-running on OS threads (called in the -race plain build).
// c17Fresh: operations whose string arguments (tags, keys, paths, sub-key specs, key pairs) have never been
// seen by the process before: whatever the library memoises by argument text is filled concurrently.
func c17Fresh(tok string) []func() string {
	r := func(v interface{}, err error) string { return fmt.Sprintf("%s|%v", dump(v), err != nil) }
	srt := func(v []interface{}, err error) string {
		return fmt.Sprintf("%v|%v", sortedCopy(dumpSeq(v)), err != nil)
	}
	S := func() mxj.Map { return mxj.Map(c17Shared) }
	priv := func() mxj.Map {
		return mxj.Map{tok: map[string]interface{}{"b": map[string]interface{}{"c": "v"}, "l": []interface{}{map[string]interface{}{"id": tok}, map[string]interface{}{"id": "o"}}}}
	}
	return []func() string{
		func() string { return srt(S().ValuesForPath("*.k", "!-id:"+tok)) },
		func() string { return srt(S().ValuesForKey("k", "z:"+tok)) },
		func() string { return srt(S().ValuesForKey(tok)) },
		func() string { return fmt.Sprint(S().PathsForKey(tok)) },
		func() string { return srt(S().ValuesForPath(tok + ".k")) },
		func() string { return srt(priv().ValuesForPath(tok+".l", "id:"+tok)) },
		func() string { return srt(priv().ValuesForPath(tok + ".l[1].id")) },
		func() string {
			m, e := mxj.NewMapXml([]byte("<"+tok+" A"+tok+"=\"1\"><B"+tok+">true</B"+tok+"><c>"+tok+"</c></"+tok+">"), true)
			return r(map[string]interface{}(m), e)
		},
		func() string {
			m, e := mxj.NewMapXmlSeq([]byte("<n:" + tok + "><!--" + tok + "--><q:" + tok + ">v</q:" + tok + "></n:" + tok + ">"))
			if e != nil {
				return r(nil, e)
			}
			v, e2 := m.Xml()
			return r(string(v), e2)
		},
		func() string { v, e := priv().Xml(); return r(string(v), e) },
		func() string { v, e := priv().Json(); return r(string(v), e) },
		func() string { return fmt.Sprint(sortLeafs(priv().LeafNodes())) },
		func() string { m, e := priv().NewMap(tok + ".b:x." + tok); return r(map[string]interface{}(m), e) },
		func() string { m, e := priv().NewMap(tok + ":x*"); return r(map[string]interface{}(m), e) },
		func() string {
			p := priv()
			e := p.SetValueForPath("n", tok+".b.c")
			return r(map[string]interface{}(p), e)
		},
		func() string {
			p := priv()
			n, e := p.UpdateValuesForPath("id:"+tok+"2", tok+".l.id", "id:"+tok)
			return r(map[string]interface{}(p), e) + fmt.Sprint(n)
		},
		func() string { p := priv(); e := p.RenameKey(tok+".b", tok); return r(map[string]interface{}(p), e) },
		func() string {
			m, e := mxj.NewMapJson([]byte(`{"` + tok + `":[1,{"` + tok + `k":"<"}]}`))
			return r(map[string]interface{}(m), e)
		},
	}
}

func racePass() {
	c17Init()
	menu := c17Menu()
	var names []string
	for k := range menu {
		names = append(names, k)
	}
	names = sortedCopy(names)
	var mu sync.Mutex
	bad := ""
	note := func(s string) {
		mu.Lock()
		if bad == "" {
			bad = s
		}
		mu.Unlock()
	}
	// phase A (cold): the very first calls of the process run concurrently - whatever the library
	// initialises lazily is initialised under contention; results are compared with a sequential pass afterwards
	const G = 8
	cold := make([][]string, G)
	var wg sync.WaitGroup
	for g := 0; g < G; g++ {
		wg.Add(1)
		go func(g int) {
			defer wg.Done()
			cold[g] = make([]string, len(names))
			for i := 0; i < len(names); i++ {
				j := (i + g*5) % len(names)
				cold[g][j] = menu[names[j]]()
			}
		}(g)
	}
	wg.Wait()
	seq := map[string]string{}
	for _, n := range names {
		seq[n] = menu[n]()
	}
	for g := 0; g < G; g++ {
		for j, n := range names {
			if cold[g][j] != seq[n] {
				note(fmt.Sprintf("cold start, %s: %s != %s", n, cold[g][j], seq[n]))
			}
		}
	}
	// phase B: repeated rounds; every round also runs operations whose argument texts are new to the process,
	// one token shared by all goroutines of the round and one private to each
	deadline := time.Now().Add(4 * time.Second)
	iters := 0
	for time.Now().Before(deadline) || iters < 20 {
		shared := fmt.Sprintf("s%d", iters)
		outs := make([][]string, G)
		for g := 0; g < G; g++ {
			wg.Add(1)
			go func(g int) {
				defer wg.Done()
				for i := 0; i < len(names); i++ {
					n := names[(i+g*5)%len(names)]
					if got := menu[n](); got != seq[n] {
						note(fmt.Sprintf("%s: %s != %s", n, got, seq[n]))
					}
				}
				for _, tok := range []string{shared, fmt.Sprintf("p%dg%d", iters, g)} {
					for _, f := range c17Fresh(tok) {
						outs[g] = append(outs[g], f())
					}
				}
			}(g)
		}
		wg.Wait()
		for g := 0; g < G; g++ {
			k := 0
			for _, tok := range []string{shared, fmt.Sprintf("p%dg%d", iters, g)} {
				for fi, f := range c17Fresh(tok) {
					if want := f(); outs[g][k] != want {
						note(fmt.Sprintf("fresh-argument operation %d with token %s: %s != %s", fi, tok, outs[g][k], want))
					}
					k++
				}
			}
		}
		iters++
	}
	if bad != "" {
		fmt.Println("racepass result mismatch:", bad)
		os.Exit(67)
	}
	fmt.Printf("racepass ok iterations=%d\n", iters)
}
