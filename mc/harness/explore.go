package main

import (
	"fmt"

	rt "github.com/clbanning/mxj/v2/zzverifrt"
)

// E-choice: stateless, deviation-bounded depth-first search over choice points.

type point struct {
	kind, n, c int
	free       bool // a non-default choice here costs nothing (e.g. scheduler choice after thread exit)
}

// Exec is one execution's recorded choice points.
type Exec struct {
	points []point
	prefix []int
	bad    string // replay divergence
}

func (x *Exec) choices() []int {
	r := make([]int, len(x.points))
	for i, p := range x.points {
		r[i] = p.c
	}
	return r
}

// Deviations in the execution.
func (x *Exec) Deviations() int {
	d := 0
	for _, p := range x.points {
		if p.c != 0 && !p.free {
			d++
		}
	}
	return d
}

var curExec *Exec

// freeNext marks the next choice point as free of cost (set by the scheduler at thread exit).
var freeNext bool

func chooser(kind, n int) int {
	x := curExec
	i := len(x.points)
	c := 0
	if i < len(x.prefix) {
		c = x.prefix[i]
		if c >= n {
			x.bad = fmt.Sprintf("replay divergence at point %d: recorded choice %d but arity is %d (kind %d)", i, c, n, kind)
			c = 0
		}
	}
	x.points = append(x.points, point{kind, n, c, freeNext})
	freeNext = false
	return c
}

// runWith executes f under the given choice prefix (default choice 0 afterwards).
func runWith(prefix []int, f func()) *Exec {
	x := &Exec{prefix: prefix}
	curExec = x
	saved := rt.Chooser
	rt.Chooser = chooser
	defer func() { rt.Chooser = saved; curExec = nil }()
	f()
	return x
}

// Explorer drives the search.
type Explorer struct {
	Bound     int                // maximal number of costed non-default choices
	Run       func()             // one execution of the system under test (fresh state each time)
	Check     func(x *Exec) bool // oracle for this one execution; return false to stop the search
	MaxExecs  int64              // safety cap (0 = none); hitting it is reported
	Execs     int64
	MaxPoints int
	CapHit    bool
	Diverged  string
	stop      bool
}

// Explore runs all executions with at most Bound deviations.
func (e *Explorer) Explore() {
	e.explore(nil, 0)
}

func (e *Explorer) explore(prefix []int, devs int) {
	if e.stop {
		return
	}
	if e.MaxExecs > 0 && e.Execs >= e.MaxExecs {
		e.CapHit = true
		return
	}
	x := runWith(prefix, e.Run)
	e.Execs++
	if len(x.points) > e.MaxPoints {
		e.MaxPoints = len(x.points)
	}
	if x.bad != "" {
		e.Diverged = x.bad
		e.stop = true
		return
	}
	if !e.Check(x) {
		e.stop = true
		return
	}
	ch := x.choices()
	// deviations strictly after the prefix
	for i := len(prefix); i < len(x.points); i++ {
		p := x.points[i]
		cost := 1
		if p.free {
			cost = 0
		}
		if devs+cost > e.Bound {
			continue
		}
		for alt := 1; alt < p.n; alt++ {
			np := make([]int, i+1)
			copy(np, ch[:i])
			np[i] = alt
			e.explore(np, devs+cost)
			if e.stop {
				return
			}
		}
	}
}
