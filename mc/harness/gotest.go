package main

import (
	"encoding/json"
	"fmt"
	"strconv"
	"strings"
)

// goTestFor renders a plain Go unit test (package mxj_test, no dependency on this framework) that
// re-executes a recorded case against mxj and prints what it observes next to what the reference
// expected. It exists for the cases whose inputs are plain data (JSON Map, path, XML text, options);
// choice-sequence (schedule) violations are replayed with `mxjcheck replay` instead.
func goTestFor(prop string, cas json.RawMessage, detail string) string {
	var k map[string]interface{}
	if json.Unmarshal(cas, &k) != nil {
		return ""
	}
	str := func(name string) string { s, _ := k[name].(string); return s }
	raw := func(name string) string {
		b, _ := json.Marshal(k[name])
		return string(b)
	}
	strs := func(name string) string {
		var out []string
		if l, ok := k[name].([]interface{}); ok {
			for _, e := range l {
				out = append(out, strconv.Quote(fmt.Sprint(e)))
			}
		}
		return strings.Join(out, ", ")
	}
	hdr := `package mxj_test

import (
	"encoding/json"
	"testing"

	mxj "github.com/clbanning/mxj/v2"
)

func TestReplay(t *testing.T) {
`
	expected := "\t// what the check reported:\n"
	for _, l := range strings.Split(detail, "\n") {
		expected += "\t//   " + l + "\n"
	}
	loadMap := func(field string) string {
		return "\tvar m map[string]interface{}\n\tif err := json.Unmarshal([]byte(" + strconv.Quote(raw(field)) + "), &m); err != nil {\n\t\tt.Fatal(err)\n\t}\n"
	}
	opts := func() string {
		cfg, _ := k["cfg"].(map[string]interface{})
		if cfg == nil {
			return ""
		}
		var sb strings.Builder
		b := func(n string) bool { v, _ := cfg[n].(bool); return v }
		if p, _ := cfg["attr_prefix"].(string); p != "-" {
			fmt.Fprintf(&sb, "\tmxj.SetAttrPrefix(%q)\n\tdefer mxj.SetAttrPrefix(\"-\")\n", p)
		}
		if p, _ := cfg["key_prefix"].(string); p != "#" && p != "" {
			fmt.Fprintf(&sb, "\tmxj.SetGlobalKeyMapPrefix(%q)\n\tdefer mxj.SetGlobalKeyMapPrefix(\"#\")\n", p)
		}
		for _, o := range [][2]string{{"lower", "CoerceKeysToLower"}, {"snake", "CoerceKeysToSnakeCase"}, {"simple_map", "DecodeSimpleValuesAsMap"},
			{"keep_spaces", "DisableTrimWhiteSpace"}, {"seq_num", "IncludeTagSeqNum"}, {"cast_int", "CastValuesToInt"}, {"nan_inf", "CastNanInf"}, {"check_valid", "XmlCheckIsValid"}} {
			if b(o[0]) {
				fmt.Fprintf(&sb, "\tmxj.%s(true)\n\tdefer mxj.%s(false)\n", o[1], o[1])
			}
		}
		if b("no_float") {
			sb.WriteString("\tmxj.CastValuesToFloat(false)\n\tdefer mxj.CastValuesToFloat(true)\n")
		}
		if b("no_bool") {
			sb.WriteString("\tmxj.CastValuesToBool(false)\n\tdefer mxj.CastValuesToBool(true)\n")
		}
		if b("esc_enc") && b("esc_enc_first") {
			sb.WriteString("\tmxj.XMLEscapeChars(true)\n")
		}
		if b("esc_dec") {
			sb.WriteString("\tmxj.XMLEscapeCharsDecoder(true)\n\tdefer mxj.XMLEscapeCharsDecoder(false)\n")
		}
		if b("esc_enc") && !b("esc_enc_first") {
			sb.WriteString("\tmxj.XMLEscapeChars(true)\n")
		}
		if b("esc_enc") {
			sb.WriteString("\tdefer mxj.XMLEscapeChars(false)\n")
		}
		return sb.String()
	}
	switch prop {
	case "C07":
		return hdr + loadMap("map") + fmt.Sprintf("\tgot, err := mxj.Map(m).ValuesForPath(%q)\n\tt.Logf(\"ValuesForPath=%%#v err=%%v\", got, err)\n\tone, err1 := mxj.Map(m).ValueForPath(%q)\n\tex, _ := mxj.Map(m).Exists(%q)\n\tt.Logf(\"ValueForPath=%%#v,%%v Exists=%%v\", one, err1, ex)\n", str("path"), str("path"), str("path")) + expected + "}\n"
	case "C08":
		if str("path") != "" {
			return hdr + loadMap("map") + fmt.Sprintf("\tunf, _ := mxj.Map(m).ValuesForPath(%q)\n\tgot, err := mxj.Map(m).ValuesForPath(%q, %s)\n\tt.Logf(\"unfiltered=%%#v\\nfiltered=%%#v err=%%v\", unf, got, err)\n", str("path"), str("path"), strs("subkeys")) + expected + "}\n"
		}
		sk := strs("subkeys")
		if sk != "" {
			sk = ", " + sk
		}
		return hdr + loadMap("map") + fmt.Sprintf("\tgot, err := mxj.Map(m).ValuesForKey(%q%s)\n\tt.Logf(\"ValuesForKey=%%#v err=%%v\", got, err)\n\tt.Logf(\"PathsForKey=%%v shortest=%%q\", mxj.Map(m).PathsForKey(%q), mxj.Map(m).PathForKeyShortest(%q))\n", str("key"), sk, str("key"), str("key")) + expected + "}\n"
	case "C10":
		nv := fmt.Sprintf("map[string]interface{}{%q: nv}", str("key"))
		pre := "\tvar nv interface{}\n\tjson.Unmarshal([]byte(" + strconv.Quote(raw("value")) + "), &nv)\n"
		if s := str("as_string"); s != "" {
			nv, pre = strconv.Quote(s), ""
		}
		sk := strs("subkeys")
		if sk != "" {
			sk = ", " + sk
		}
		return hdr + loadMap("map") + pre + fmt.Sprintf("\tn, err := mxj.Map(m).UpdateValuesForPath(%s, %q%s)\n\tafter, _ := json.Marshal(m)\n\tt.Logf(\"count=%%d err=%%v after=%%s\", n, err, after)\n", nv, str("path"), sk) + expected + "}\n"
	case "C11":
		call := map[string]string{"set": fmt.Sprintf("mxj.Map(m).SetValueForPath(\"NEW\", %q)", str("path")), "remove": fmt.Sprintf("mxj.Map(m).Remove(%q)", str("path")),
			"rename": fmt.Sprintf("mxj.Map(m).RenameKey(%q, %q)", str("path"), str("new_name"))}[str("op")]
		return hdr + loadMap("map") + "\terr := " + call + "\n\tafter, _ := json.Marshal(m)\n\tt.Logf(\"err=%v after=%s\", err, after)\n" + expected + "}\n"
	case "C12":
		return hdr + loadMap("map") + "\tres, err := mxj.Map(m).NewMap(" + strs("pairs") + ")\n\tafter, _ := json.Marshal(m)\n\tt.Logf(\"result=%#v err=%v receiver after=%s\", res, err, after)\n" + expected + "}\n"
	case "C01":
		cast := "false"
		if cfg, _ := k["cfg"].(map[string]interface{}); cfg != nil {
			if v, _ := cfg["cast"].(bool); v {
				cast = "true"
			}
		}
		h := strings.Replace(hdr, "\t\"encoding/json\"\n", "", 1)
		return h + opts() + fmt.Sprintf("\tm, err := mxj.NewMapXml([]byte(%q), %s)\n\tt.Logf(\"decoded=%%#v err=%%v\", m, err)\n", str("xml"), cast) + expected + "}\n"
	case "C03":
		return hdr + "\tvar v interface{}\n\tjson.Unmarshal([]byte(" + strconv.Quote(raw("value")) + "), &v)\n\tx, err := mxj.AnyXml(v)\n\tt.Logf(\"AnyXml=%s err=%v (encoder under test: " + str("encoder") + ")\", x, err)\n\tif m, ok := v.(map[string]interface{}); ok {\n\t\tx, err = mxj.Map(m).Xml()\n\t\tt.Logf(\"Map.Xml=%s err=%v\", x, err)\n\t}\n" + expected + "}\n"
	}
	return ""
}
