package main

import (
	"bytes"
	"encoding/json"
	"fmt"
	"io/ioutil"
	"os"
	"path/filepath"
	"regexp"
	"strings"

	mxj "github.com/clbanning/mxj/v2"
	"github.com/clbanning/mxj/v2/j2x"
	"github.com/clbanning/mxj/v2/x2j"
	x2jw "github.com/clbanning/mxj/v2/x2j-wrapper"
	rt "github.com/clbanning/mxj/v2/zzverifrt"
)

// C20 — The legacy x2j, j2x and x2j-wrapper packages agree with the core they wrap.

type c20Case struct {
	Fn    string          `json:"function"`
	Xml   string          `json:"xml,omitempty"`
	Json  string          `json:"json,omitempty"`
	Map   json.RawMessage `json:"map,omitempty"`
	Key   string          `json:"key,omitempty"`
	Path  string          `json:"path,omitempty"`
	Sub   []string        `json:"subkeys,omitempty"`
	Pairs []string        `json:"pairs,omitempty"`
	Flag  bool            `json:"flag,omitempty"`
	Pol   int             `json:"order_policy"`
}

func init() {
	register(&Property{ID: "C20", Run: c20Run, Replay: func(c *Ctx, cas json.RawMessage, ch []int) {
		var k c20Case
		json.Unmarshal(cas, &k)
		resetOptions()
		run := func() {
			if k.Map != nil {
				c20Walkers(c, fromJSON(string(k.Map)).(map[string]interface{}), k.Fn, k.Key, k.Path, k.Flag, ch)
			} else {
				c20Pair(c, k, ch)
			}
		}
		if len(ch) > 0 {
			rt.OrderPolicy = rt.PolicyChoose
			runWith(ch, run)
		} else {
			rt.OrderPolicy = k.Pol
			run()
		}
		rt.OrderPolicy = rt.PolicySorted
	}})
}

type oneRead struct{ r *strings.Reader }

func (o oneRead) Read(p []byte) (int, error) { return o.r.Read(p) }

// rendering helpers: results are compared as rendered strings (order-free where the core is order-free)
func rOK(v interface{}, err error) string { return fmt.Sprintf("%s|err=%v", dump(v), err != nil) }
func rBytes(b []byte, err error) string {
	if c20RetainHook != nil {
		c20RetainHook(b) // the byte slice stays with the caller: later calls must leave it alone
	}
	return fmt.Sprintf("%s|err=%v", b, err != nil)
}

var c20RetainHook func(b []byte)

func rSet(v []interface{}, err error) string {
	return fmt.Sprintf("%v|err=%v", sortedCopy(dumpSeq(v)), err != nil)
}
func rStrs(v []string, err error) string { return fmt.Sprintf("%v|err=%v", sortedCopy(v), err != nil) }
func rLeafs(v []mxj.LeafNode, err error) string {
	return fmt.Sprintf("%v|err=%v", sortLeafs(v), err != nil)
}
func segs(p string) int {
	if p == "" {
		return 0
	}
	return len(strings.Split(p, "."))
}

// c20Pair runs one wrapper function and its documented core composition on the same input.
var c20AttrPrefix = "-" // the attribute prefix in force for the reference walk

var blanksBeforeLt = regexp.MustCompile("[ \\t\\n\\r]<")

func c20Pair(c *Ctx, k c20Case, choices []int) (nontrivial bool) {
	k.Pol = rt.OrderPolicy
	c20RetainHook = func(b []byte) { c.Retain(k.Fn, b, func() interface{} { return k }) }
	defer func() { c20RetainHook = nil }()
	xb, jb := []byte(k.Xml), []byte(k.Json)
	var w, core string
	xmlMap := func(cast ...bool) (mxj.Map, error) { return mxj.NewMapXml(xb, cast...) }
	jsonMap := func() (mxj.Map, error) { return mxj.NewMapJson(jb) }
	st, pan := protect(func() {
		switch k.Fn {
		// ---------------- j2x
		case "j2x.JsonToMap":
			w = rOK(j2x.JsonToMap(jb))
			m, e := jsonMap()
			core = rOK(map[string]interface{}(m), e)
		case "j2x.MapToJson":
			m, _ := jsonMap()
			if m == nil {
				return
			}
			w = rBytes(j2x.MapToJson(m, k.Flag))
			core = rBytes(m.Json(k.Flag))
		case "j2x.JsonToXml":
			w = rBytes(j2x.JsonToXml(jb))
			m, e := jsonMap()
			if e != nil {
				core = rBytes(nil, e)
			} else {
				core = rBytes(m.Xml())
			}
		case "j2x.JsonToXmlWriter":
			var b bytes.Buffer
			e := j2x.JsonToXmlWriter(jb, &b)
			w = rBytes(b.Bytes(), e)
			m, e2 := jsonMap()
			if e2 != nil {
				core = rBytes(nil, e2)
			} else {
				core = rBytes(m.Xml())
			}
		case "j2x.JsonReaderToXml":
			raw, x, e := j2x.JsonReaderToXml(oneRead{strings.NewReader(k.Json)})
			w = fmt.Sprintf("%s|%s|err=%v", raw, x, e != nil)
			m, raw2, e2 := mxj.NewMapJsonReaderRaw(oneRead{strings.NewReader(k.Json)})
			if e2 != nil {
				core = fmt.Sprintf("%s|%s|err=%v", raw2, "", true)
			} else {
				x2, e3 := m.Xml()
				core = fmt.Sprintf("%s|%s|err=%v", raw2, x2, e3 != nil)
			}
		case "j2x.JsonReaderToXmlWriter":
			var b bytes.Buffer
			e := j2x.JsonReaderToXmlWriter(oneRead{strings.NewReader(k.Json)}, &b)
			w = rBytes(b.Bytes(), e)
			m, e2 := mxj.NewMapJsonReader(oneRead{strings.NewReader(k.Json)})
			if e2 != nil {
				core = rBytes(nil, e2)
			} else {
				core = rBytes(m.Xml())
			}
		case "j2x.JsonReaderToXml(stream)", "j2x.JsonReaderToXmlWriter(stream)":
			// two documents on one reader (k.Pairs): the reader forms consume one document per call, like the core reader
			stream := strings.Join(k.Pairs, " ")
			r1 := oneRead{strings.NewReader(stream)}
			r2 := oneRead{strings.NewReader(stream)}
			var ws, cs []string
			for i := 0; i <= len(k.Pairs); i++ {
				if k.Fn == "j2x.JsonReaderToXml(stream)" {
					_, x, e := j2x.JsonReaderToXml(r1)
					ws = append(ws, fmt.Sprintf("%s|err=%v", x, e != nil))
				} else {
					var b bytes.Buffer
					e := j2x.JsonReaderToXmlWriter(r1, &b)
					ws = append(ws, rBytes(b.Bytes(), e))
				}
				m, e2 := mxj.NewMapJsonReader(r2)
				if e2 != nil {
					cs = append(cs, rBytes(nil, e2))
				} else {
					cs = append(cs, rBytes(m.Xml()))
				}
			}
			w, core = strings.Join(ws, " ; "), strings.Join(cs, " ; ")
		case "j2x.JsonPathsForKey":
			w = rStrs(j2x.JsonPathsForKey(jb, k.Key))
			m, e := jsonMap()
			if e != nil {
				core = rStrs(nil, e)
			} else {
				core = rStrs(m.PathsForKey(k.Key), nil)
			}
		case "j2x.JsonPathForKeyShortest":
			p, e := j2x.JsonPathForKeyShortest(jb, k.Key)
			w = fmt.Sprintf("%d|err=%v", segs(p), e != nil)
			m, e2 := jsonMap()
			if e2 != nil {
				core = fmt.Sprintf("%d|err=%v", 0, true)
			} else {
				core = fmt.Sprintf("%d|err=%v", segs(m.PathForKeyShortest(k.Key)), false)
			}
		case "j2x.JsonValuesForKey":
			w = rSet(j2x.JsonValuesForKey(jb, k.Key, k.Sub...))
			m, e := jsonMap()
			if e != nil {
				core = rSet(nil, e)
			} else {
				core = rSet(m.ValuesForKey(k.Key, k.Sub...))
			}
		case "j2x.JsonValuesForKeyPath":
			w = rSet(j2x.JsonValuesForKeyPath(jb, k.Path, k.Sub...))
			m, e := jsonMap()
			if e != nil {
				core = rSet(nil, e)
			} else {
				core = rSet(m.ValuesForPath(k.Path, k.Sub...))
			}
		case "j2x.JsonUpdateValsForPath":
			w = rBytes(j2x.JsonUpdateValsForPath(jb, "k:NEW", k.Path, k.Sub...))
			m, e := jsonMap()
			if e != nil {
				core = rBytes(nil, e)
			} else if _, e2 := m.UpdateValuesForPath("k:NEW", k.Path, k.Sub...); e2 != nil {
				core = rBytes(nil, e2)
			} else {
				core = rBytes(m.Json())
			}
		case "j2x.JsonNewJson", "j2x.JsonNewXml":
			m, e := jsonMap()
			var n mxj.Map
			if e == nil {
				n, e = m.NewMap(k.Pairs...)
			}
			if k.Fn == "j2x.JsonNewJson" {
				w = rBytes(j2x.JsonNewJson(jb, k.Pairs...))
				if e != nil {
					core = rBytes(nil, e)
				} else {
					core = rBytes(n.Json())
				}
			} else {
				w = rBytes(j2x.JsonNewXml(jb, k.Pairs...))
				if e != nil {
					core = rBytes(nil, e)
				} else {
					core = rBytes(n.Xml())
				}
			}
		case "j2x.JsonLeafNodes":
			w = rLeafs(j2x.JsonLeafNodes(jb))
			m, e := jsonMap()
			if e != nil {
				core = rLeafs(nil, e)
			} else {
				core = rLeafs(m.LeafNodes(), nil)
			}
		case "j2x.JsonLeafValues":
			w = rSet(j2x.JsonLeafValues(jb))
			m, e := jsonMap()
			if e != nil {
				core = rSet(nil, e)
			} else {
				core = rSet(m.LeafValues(), nil)
			}
		case "j2x.JsonLeafPath":
			w = rStrs(j2x.JsonLeafPath(jb))
			m, e := jsonMap()
			if e != nil {
				core = rStrs(nil, e)
			} else {
				core = rStrs(m.LeafPaths(), nil)
			}
		// ---------------- x2j
		case "x2j.XmlToMap":
			w = rOK(x2j.XmlToMap(xb))
			m, e := xmlMap()
			core = rOK(map[string]interface{}(m), e)
		case "x2j.MapToXml":
			m, e := xmlMap()
			if e != nil {
				return
			}
			w = rBytes(x2j.MapToXml(m))
			core = rBytes(m.Xml())
		case "x2j.XmlToJson":
			w = rBytes(x2j.XmlToJson(xb, k.Flag))
			m, e := xmlMap()
			if e != nil {
				core = rBytes(nil, e)
			} else {
				core = rBytes(m.Json(k.Flag))
			}
		case "x2j.XmlToJsonWriter":
			var b bytes.Buffer
			raw, e := x2j.XmlToJsonWriter(xb, &b, k.Flag)
			w = fmt.Sprintf("%s|%s|err=%v", raw, b.Bytes(), e != nil)
			m, e2 := xmlMap()
			if e2 != nil {
				core = fmt.Sprintf("%s|%s|err=%v", "", "", true)
			} else {
				j, e3 := m.Json(k.Flag)
				core = fmt.Sprintf("%s|%s|err=%v", j, j, e3 != nil)
			}
		case "x2j.XmlReaderToJson":
			raw, j, e := x2j.XmlReaderToJson(oneRead{strings.NewReader(k.Xml)}, k.Flag)
			w = fmt.Sprintf("%s|%s|err=%v", raw, j, e != nil)
			m, raw2, e2 := mxj.NewMapXmlReaderRaw(oneRead{strings.NewReader(k.Xml)})
			if e2 != nil {
				core = fmt.Sprintf("%s|%s|err=%v", raw2, "", true)
			} else {
				j2, e3 := m.Json(k.Flag)
				core = fmt.Sprintf("%s|%s|err=%v", raw2, j2, e3 != nil)
			}
		case "x2j.XmlReaderToJsonWriter":
			var b bytes.Buffer
			raw, j, e := x2j.XmlReaderToJsonWriter(oneRead{strings.NewReader(k.Xml)}, &b, k.Flag)
			w = fmt.Sprintf("%s|%s|%s|err=%v", raw, j, b.Bytes(), e != nil)
			m, raw2, e2 := mxj.NewMapXmlReaderRaw(oneRead{strings.NewReader(k.Xml)})
			if e2 != nil {
				core = fmt.Sprintf("%s|%s|%s|err=%v", raw2, "", "", true)
			} else {
				j2, e3 := m.Json(k.Flag)
				core = fmt.Sprintf("%s|%s|%s|err=%v", raw2, j2, j2, e3 != nil)
			}
		case "x2j.XmlPathsForTag":
			w = rStrs(x2j.XmlPathsForTag(xb, k.Key))
			m, e := xmlMap()
			if e != nil {
				core = rStrs(nil, e)
			} else {
				core = rStrs(m.PathsForKey(k.Key), nil)
			}
		case "x2j.XmlPathForTagShortest":
			p, e := x2j.XmlPathForTagShortest(xb, k.Key)
			w = fmt.Sprintf("%d|err=%v", segs(p), e != nil)
			m, e2 := xmlMap()
			if e2 != nil {
				core = fmt.Sprintf("%d|err=%v", 0, true)
			} else {
				core = fmt.Sprintf("%d|err=%v", segs(m.PathForKeyShortest(k.Key)), false)
			}
		case "x2j.XmlValuesForTag":
			w = rSet(x2j.XmlValuesForTag(xb, k.Key, k.Sub...))
			m, e := xmlMap()
			if e != nil {
				core = rSet(nil, e)
			} else {
				core = rSet(m.ValuesForKey(k.Key, k.Sub...))
			}
		case "x2j.XmlValuesForPath":
			w = rSet(x2j.XmlValuesForPath(xb, k.Path, k.Sub...))
			m, e := xmlMap()
			if e != nil {
				core = rSet(nil, e)
			} else {
				core = rSet(m.ValuesForPath(k.Path, k.Sub...))
			}
		case "x2j.XmlUpdateValsForPath":
			w = rBytes(x2j.XmlUpdateValsForPath(xb, "a:NEW", k.Path, k.Sub...))
			m, e := xmlMap()
			if e != nil {
				core = rBytes(nil, e)
			} else if _, e2 := m.UpdateValuesForPath("a:NEW", k.Path, k.Sub...); e2 != nil {
				core = rBytes(nil, e2)
			} else {
				core = rBytes(m.Xml())
			}
		case "x2j.XmlNewXml", "x2j.XmlNewJson":
			m, e := xmlMap()
			var n mxj.Map
			if e == nil {
				n, e = m.NewMap(k.Pairs...)
			}
			if k.Fn == "x2j.XmlNewXml" {
				w = rBytes(x2j.XmlNewXml(xb, k.Pairs...))
				if e != nil {
					core = rBytes(nil, e)
				} else {
					core = rBytes(n.Xml())
				}
			} else {
				w = rBytes(x2j.XmlNewJson(xb, k.Pairs...))
				if e != nil {
					core = rBytes(nil, e)
				} else {
					core = rBytes(n.Json())
				}
			}
		case "x2j.XmlLeafNodes":
			w = rLeafs(x2j.XmlLeafNodes(xb))
			m, e := xmlMap()
			if e != nil {
				core = rLeafs(nil, e)
			} else {
				core = rLeafs(m.LeafNodes(), nil)
			}
		case "x2j.XmlLeafValues":
			w = rSet(x2j.XmlLeafValues(xb))
			m, e := xmlMap()
			if e != nil {
				core = rSet(nil, e)
			} else {
				core = rSet(m.LeafValues(), nil)
			}
		case "x2j.XmlLeafPath":
			w = rStrs(x2j.XmlLeafPath(xb))
			m, e := xmlMap()
			if e != nil {
				core = rStrs(nil, e)
			} else {
				core = rStrs(m.LeafPaths(), nil)
			}
		// ---------------- x2j-wrapper conversions
		case "x2jw.DocToMap":
			w = rOK(x2jw.DocToMap(k.Xml, k.Flag))
			m, e := xmlMap(k.Flag)
			core = rOK(map[string]interface{}(m), e)
		case "x2jw.ByteDocToMap":
			w = rOK(x2jw.ByteDocToMap(xb, k.Flag))
			m, e := xmlMap(k.Flag)
			core = rOK(map[string]interface{}(m), e)
		case "x2jw.DocToJson", "x2jw.ByteDocToJson", "x2jw.DocToJsonIndent", "x2jw.ToJson", "x2jw.ToJsonIndent", "x2jw.Unmarshal(string)":
			var s string
			var e error
			switch k.Fn {
			case "x2jw.DocToJson":
				s, e = x2jw.DocToJson(k.Xml, k.Flag)
			case "x2jw.ByteDocToJson":
				s, e = x2jw.ByteDocToJson(xb, k.Flag)
			case "x2jw.DocToJsonIndent":
				s, e = x2jw.DocToJsonIndent(k.Xml, k.Flag)
			case "x2jw.ToJson":
				s, e = x2jw.ToJson(oneRead{strings.NewReader(k.Xml)}, k.Flag)
			case "x2jw.ToJsonIndent":
				s, e = x2jw.ToJsonIndent(oneRead{strings.NewReader(k.Xml)}, k.Flag)
			case "x2jw.Unmarshal(string)":
				e = x2jw.Unmarshal(xb, &s)
			}
			w = fmt.Sprintf("%s|err=%v", s, e != nil)
			cast := k.Flag && k.Fn != "x2jw.Unmarshal(string)"
			m, e2 := xmlMap(cast)
			if e2 != nil || m == nil {
				core = fmt.Sprintf("%s|err=%v", "", e2 != nil)
			} else {
				var j []byte
				var e3 error
				switch {
				case strings.HasSuffix(k.Fn, "Indent"):
					// the wrappers take no encoding flag: the composition is decode + JsonIndent / Json with none,
					// for the reader forms exactly as for the string forms
					j, e3 = m.JsonIndent("", "  ")
				default:
					j, e3 = m.Json()
				}
				core = fmt.Sprintf("%s|err=%v", j, e3 != nil)
			}
		case "x2jw.CastNanInf":
			// the wrapper's option setter has the effect of the core setter it is named after and documented like
			x2jw.CastNanInf(k.Flag)
			m1, e1 := x2jw.DocToMap(k.Xml, true)
			x2jw.CastNanInf(false)
			mxj.CastNanInf(false)
			w = rOK(m1, e1)
			mxj.CastNanInf(k.Flag)
			m2, e2 := mxj.NewMapXml([]byte(k.Xml), true)
			mxj.CastNanInf(false)
			core = rOK(map[string]interface{}(m2), e2)
		case "x2jw.ToMap":
			w = rOK(x2jw.ToMap(oneRead{strings.NewReader(k.Xml)}, k.Flag))
			m, e := mxj.NewMapXmlReader(oneRead{strings.NewReader(k.Xml)}, k.Flag)
			core = rOK(map[string]interface{}(m), e)
		case "x2jw.Unmarshal(map)":
			mm := map[string]interface{}{}
			e := x2jw.Unmarshal(xb, &mm)
			w = rOK(mm, e)
			m, e2 := xmlMap()
			if m == nil {
				m = mxj.Map{}
			}
			core = rOK(map[string]interface{}(m), e2)
		case "x2jw.PathsForTag":
			w = rStrs(x2jw.PathsForTag(k.Xml, k.Key))
			m, e := xmlMap()
			if e != nil {
				core = rStrs(nil, e)
			} else {
				core = rStrs(m.PathsForKey(k.Key), nil)
			}
		case "x2jw.BytePathsForTag":
			w = rStrs(x2jw.BytePathsForTag(xb, k.Key))
			m, e := xmlMap()
			if e != nil {
				core = rStrs(nil, e)
			} else {
				core = rStrs(m.PathsForKey(k.Key), nil)
			}
		case "x2jw.PathForTagShortest":
			p, e := x2jw.PathForTagShortest(k.Xml, k.Key)
			w = fmt.Sprintf("%d|err=%v", segs(p), e != nil)
			m, e2 := xmlMap()
			if e2 != nil {
				core = fmt.Sprintf("%d|err=%v", 0, true)
			} else {
				core = fmt.Sprintf("%d|err=%v", segs(m.PathForKeyShortest(k.Key)), false)
			}
		case "x2jw.BytePathForTagShortest":
			p, e := x2jw.BytePathForTagShortest(xb, k.Key)
			w = fmt.Sprintf("%d|err=%v", segs(p), e != nil)
			m, e2 := xmlMap()
			if e2 != nil {
				core = fmt.Sprintf("%d|err=%v", 0, true)
			} else {
				core = fmt.Sprintf("%d|err=%v", segs(m.PathForKeyShortest(k.Key)), false)
			}
		case "x2jw.ValuesAtTagPath":
			// the document form of ValuesAtKeyPath: must equal the walker on the decoded document
			v, e := x2jw.ValuesAtTagPath(k.Xml, k.Path, k.Flag)
			w = rSet(v, e)
			m, e2 := xmlMap()
			if e2 != nil {
				core = rSet(nil, e2)
			} else {
				core = rSet(x2jw.ValuesAtKeyPath(map[string]interface{}(m), k.Path, k.Flag), nil)
			}
		case "x2jw.XmlBufferToMap":
			m1, e1 := x2jw.XmlBufferToMap(bytes.NewBufferString(k.Xml), k.Flag)
			if m1 == nil {
				m1 = map[string]interface{}{}
			}
			w = rOK(m1, e1)
			m, e2 := mxj.NewMapXmlReader(bytes.NewBufferString(k.Xml), k.Flag)
			if m == nil {
				m = mxj.Map{}
			}
			core = rOK(map[string]interface{}(m), e2)
		case "x2jw.XmlBufferToJson":
			j1, e1 := x2jw.XmlBufferToJson(bytes.NewBufferString(k.Xml), k.Flag)
			w = fmt.Sprintf("%s|err=%v", j1, e1 != nil)
			m, e2 := mxj.NewMapXmlReader(bytes.NewBufferString(k.Xml), k.Flag)
			if e2 != nil {
				core = fmt.Sprintf("%s|err=%v", "", true)
			} else {
				j, e3 := m.Json() // the buffer form is documented as decode + Map.Json (default encoding)
				core = fmt.Sprintf("%s|err=%v", j, e3 != nil)
			}
		case "x2jw.XmlMsgsFromFile", "x2jw.XmlMsgsFromFileAsJson":
			// the file forms are the reader forms on the file's content (k.Pairs holds the documents of k.Xml)
			fn := filepath.Join(c16Dir(), fmt.Sprintf("c20-%d-%d.xml", os.Getpid(), c.Shard))
			if err := os.WriteFile(fn, []byte(k.Xml), 0o644); err != nil {
				c.Broken("C20: %v", err)
				return
			}
			defer os.Remove(fn)
			var got, want []string
			var e error
			if k.Fn == "x2jw.XmlMsgsFromFile" {
				e = x2jw.XmlMsgsFromFile(fn, func(m map[string]interface{}) bool { got = append(got, dump(m)); return true }, func(error) bool { return false }, k.Flag)
			} else {
				e = x2jw.XmlMsgsFromFileAsJson(fn, func(js string) bool { got = append(got, js); return true }, func(error) bool { return false }, k.Flag)
			}
			w = fmt.Sprintf("%q|err=%v", got, e != nil)
			for _, d := range k.Pairs {
				m, _ := mxj.NewMapXml([]byte(d), k.Flag)
				if k.Fn == "x2jw.XmlMsgsFromFile" {
					want = append(want, dump(map[string]interface{}(m)))
				} else {
					j, _ := m.Json()
					want = append(want, string(j))
				}
			}
			core = fmt.Sprintf("%q|err=%v", want, false)
		case "x2jw.XmlMsgsFromReader", "x2jw.XmlMsgsFromReaderAsJson":
			// k.Pairs holds the documents of the stream k.Xml
			var got []string
			var e error
			if k.Fn == "x2jw.XmlMsgsFromReader" {
				e = x2jw.XmlMsgsFromReader(oneRead{strings.NewReader(k.Xml)}, func(m map[string]interface{}) bool {
					got = append(got, dump(m))
					return true
				}, func(error) bool { return false }, k.Flag)
			} else {
				e = x2jw.XmlMsgsFromReaderAsJson(oneRead{strings.NewReader(k.Xml)}, func(js string) bool {
					got = append(got, js)
					return true
				}, func(error) bool { return false }, k.Flag)
			}
			w = fmt.Sprintf("%q|err=%v", got, e != nil)
			var want []string
			for _, d := range k.Pairs {
				m, _ := mxj.NewMapXml([]byte(d), k.Flag)
				if k.Fn == "x2jw.XmlMsgsFromReader" {
					want = append(want, dump(map[string]interface{}(m)))
				} else {
					j, _ := m.Json()
					want = append(want, string(j))
				}
			}
			core = fmt.Sprintf("%q|err=%v", want, false)
		case "x2jw.XmlMsgsFromReader(stop)", "x2jw.XmlMsgsFromReaderAsJson(stop)":
			// the handler ends the run after the first message ("can be stopped after a particular message"): the wrapper
			// is a loop of the core's reader decoder, so it has consumed what one mxj.NewMapXmlReader call consumes and
			// the caller's reader delivers the rest of the stream afterwards
			var got []string
			var e error
			src := strings.NewReader(k.Xml)
			if k.Fn == "x2jw.XmlMsgsFromReader(stop)" {
				e = x2jw.XmlMsgsFromReader(oneRead{src}, func(m map[string]interface{}) bool {
					got = append(got, dump(m))
					return false
				}, func(error) bool { return false }, k.Flag)
			} else {
				e = x2jw.XmlMsgsFromReaderAsJson(oneRead{src}, func(js string) bool {
					got = append(got, js)
					return false
				}, func(error) bool { return false }, k.Flag)
			}
			rest, _ := ioutil.ReadAll(src)
			w = fmt.Sprintf("%q|err=%v|rest of the stream=%q", got, e != nil, rest)
			src2 := strings.NewReader(k.Xml)
			m, e2 := mxj.NewMapXmlReader(oneRead{src2}, k.Flag)
			var want []string
			if k.Fn == "x2jw.XmlMsgsFromReader(stop)" {
				want = append(want, dump(map[string]interface{}(m)))
			} else {
				j, _ := m.Json()
				want = append(want, string(j))
			}
			rest2, _ := ioutil.ReadAll(src2)
			core = fmt.Sprintf("%q|err=%v|rest of the stream=%q", want, e2 != nil, rest2)
		case "x2jw.ValuesFromTagPath(@)":
			// the attribute prefix is an option of the core (C01 domain): attribute entries are the ones carrying it
			mxj.SetAttrPrefix("@")
			c20AttrPrefix = "@"
			defer func() { mxj.SetAttrPrefix("-"); c20AttrPrefix = "-" }()
			v, e := x2jw.ValuesFromTagPath(k.Xml, k.Path, k.Flag)
			w = rSet(v, e)
			m, e2 := xmlMap()
			if e2 != nil {
				core = rSet(nil, e2)
			} else {
				core = rSet(refNoAttr(map[string]interface{}(m), strings.Split(k.Path, "."), k.Flag), nil)
			}
		case "x2jw.ValuesFromTagPath", "x2jw.ReaderValuesFromTagPath":
			var v []interface{}
			var e error
			if k.Fn == "x2jw.ValuesFromTagPath" {
				v, e = x2jw.ValuesFromTagPath(k.Xml, k.Path, k.Flag)
			} else {
				v, e = x2jw.ReaderValuesFromTagPath(oneRead{strings.NewReader(k.Xml)}, k.Path, k.Flag)
			}
			w = rSet(v, e)
			m, e2 := xmlMap()
			if e2 != nil {
				core = rSet(nil, e2)
			} else {
				core = rSet(refNoAttr(map[string]interface{}(m), strings.Split(k.Path, "."), k.Flag), nil)
			}
		}
	})
	c.S.Transitions += 2
	c.S.Validated++
	if w == "" && core == "" && !pan {
		return false
	}
	if pan {
		c.Violate(k.Fn, "panic", "wrapper", k, choices, st)
		return
	}
	c.Outcome(k.Fn + "|" + w)
	if w != core {
		shape := "wrapper"
		if strings.HasSuffix(k.Fn, "(@)") {
			shape = "non-default-attribute-prefix"
		}
		if strings.HasPrefix(k.Fn, "x2jw.XmlMsgsFromFile") {
			for _, d := range k.Pairs {
				if blanksBeforeLt.MatchString(d) {
					// white space in front of a '<' inside a document (a literal '<' in a CDATA section, a tag after text)
					shape = "file-form,blanks-before-lt-inside-a-document"
				}
			}
		}
		c.Violate(k.Fn, "agrees-with-core", shape, k, choices, fmt.Sprintf("%s xml=%q json=%q key=%q path=%q sub=%v pairs=%v flag=%v\n wrapper: %s\n core   : %s", k.Fn, k.Xml, k.Json, k.Key, k.Path, k.Sub, k.Pairs, k.Flag, short(w, 700), short(core, 700)))
	}
	return true
}

// refNoAttr: reference for the wrapper walkers = refPlain with attribute entries ("-" prefix)
// skipped at wildcard steps unless requested.
func refNoAttr(v interface{}, steps []string, getAttrs bool) []interface{} {
	var out []interface{}
	var rec func(v interface{}, steps []string)
	rec = func(v interface{}, steps []string) {
		if len(steps) == 0 {
			refFinal(v, false, &out)
			return
		}
		s, rest := steps[0], steps[1:]
		visit := func(n interface{}, fromList bool) {
			switch m := n.(type) {
			case map[string]interface{}:
				if s == "*" {
					for _, k := range sortedKeys(m) {
						if strings.HasPrefix(k, c20AttrPrefix) && !getAttrs {
							continue
						}
						rec(m[k], rest)
					}
				} else if e, ok := m[s]; ok {
					rec(e, rest)
				}
			case []interface{}:
				if fromList && s == "*" {
					rec(n, rest)
				}
			default:
				if s == "*" && fromList {
					rec(n, rest)
				}
			}
		}
		if l, ok := v.([]interface{}); ok {
			for _, e := range l {
				visit(e, true)
			}
		} else {
			visit(v, false)
		}
	}
	rec(v, steps)
	return out
}

// c20Walkers checks the x2j-wrapper's own walkers against the core methods on a Map.
func c20Walkers(c *Ctx, m map[string]interface{}, fn, key, path string, flag bool, choices []int) (nontrivial bool) {
	cas := func() interface{} {
		return c20Case{Fn: fn, Map: json.RawMessage(jsonOf(m)), Key: key, Path: path, Flag: flag, Pol: rt.OrderPolicy}
	}
	mv := mxj.Map(m)
	var w, core string
	var wres []interface{}
	before := dump(m)
	st, pan := protect(func() {
		switch fn {
		case "x2jw.PathsForKey":
			w = rStrs(x2jw.PathsForKey(m, key), nil)
			core = rStrs(mv.PathsForKey(key), nil)
		case "x2jw.PathForKeyShortest":
			p := x2jw.PathForKeyShortest(m, key)
			all := mv.PathsForKey(key)
			member := len(all) == 0 && p == ""
			for _, a := range all {
				if a == p {
					member = true
				}
			}
			w = fmt.Sprintf("%d|member=%v", segs(p), member)
			core = fmt.Sprintf("%d|member=%v", segs(mv.PathForKeyShortest(key)), true)
		case "x2jw.ValuesFromKeyPath":
			wres = x2jw.ValuesFromKeyPath(m, path, flag)
			w = rSet(wres, nil)
			core = rSet(refNoAttr(m, strings.Split(path, "."), flag), nil)
			if flag && !hasListInList(m) {
				// with attributes requested the walker is ValuesForPath itself
				v, e := mv.ValuesForPath(path)
				if c2 := rSet(v, e); c2 != core {
					core = c2 + " (Map.ValuesForPath) vs reference " + core
				}
			}
		case "x2jw.ValuesAtKeyPath":
			wres = x2jw.ValuesAtKeyPath(m, path, flag)
			w = rSet(wres, nil)
			steps := strings.Split(path, ".")
			var parents []interface{}
			if len(steps) > 1 {
				parents = refNoAttr(m, steps[:len(steps)-1], flag)
			} else {
				parents = []interface{}{m}
			}
			last := steps[len(steps)-1]
			has := last == "*"
			for _, p := range parents {
				if pm, ok := p.(map[string]interface{}); ok {
					if _, ok := pm[last]; ok {
						has = true
					}
				}
			}
			if !has || len(parents) == 0 {
				parents = nil
			}
			core = rSet(parents, nil)
		}
	})
	c.S.Transitions += 2
	c.S.Validated++
	if pan {
		c.Violate(fn, "panic", "walker", cas, choices, st)
		return
	}
	if dump(m) != before {
		c.Violate(fn, "input-modified", "walker", cas, choices, before)
		return
	}
	c.Outcome(fn + "|" + w)
	// like Map.ValuesForPath, the walkers hand out a slice of their own, not a list of the Map
	if !c.NoAlias(fn, wres, m, "walker", cas, choices) {
		return true
	}
	if w != core {
		c.Violate(fn, "agrees-with-core", "walker", cas, choices, fmt.Sprintf("%s map=%s key=%q path=%q getAttrs=%v\n wrapper: %s\n core   : %s", fn, jsonOf(m), key, path, flag, short(w, 600), short(core, 600)))
	}
	return !strings.HasPrefix(w, "[]|")
}

func c20Run(c *Ctx) {
	mustBeDefault(c)
	c.S.Rule = "part 1 (wrappers = documented composition of core calls): every exported function of j2x (17), x2j (17) and the conversion/reader/buffer/file functions of x2j-wrapper (22) x documents (XML: all element trees with <= 3 elements with <= 1 decoration, plus malformed inputs; JSON: Map templates with <= 4 nodes incl. special characters, plus malformed inputs) x keys {a,b,k,z,*} / paths of <= 2 steps / sub-key sets / key pairs / flags (safe encoding, recast) - wrapper result and error-ness must equal the composition executed on the same build in the same option state. part 2 (x2j-wrapper's own walkers): every Map template with <= N nodes over keys {a,k,-x} x keys / wildcard paths of <= 3 steps x getAttrs: PathsForKey = Map.PathsForKey as sets, PathForKeyShortest a member of equal length, ValuesFromKeyPath = reference walk with attribute entries excluded at wildcard steps unless requested (= Map.ValuesForPath when requested), ValuesAtKeyPath = the parent-level values iff one has the key. plus the sibling family {top:[M1,M2]} (Mi every map template with <= 4 nodes over {a,k}). Byte results of wrappers and compositions are retained and re-checked after later calls. Ascending/descending map order; E-choice bound 1 on the walkers for small Maps. non-trivial = non-empty result. The bulk reader wrappers are also stopped by their handler after the first message: results and the rest of the stream the caller's reader still delivers equal those of one mxj.NewMapXmlReader call on an identical reader."
	c.S.Assumptions = []string{"MapValue/DocValue/ValuesForKey of x2j-wrapper have no core counterpart with equal semantics and are covered by C15 (totality) only"}
	// ---- documents
	var xmls []string
	for n := 1; n <= 3; n++ {
		for _, base := range baseTrees(n, "r", []string{"a", "b"}, 3) {
			xmls = append(xmls, renderDoc(base, rvDefault))
			for _, d := range c02Decos(base, false) {
				if doc, ok := applyDecos(base, []Deco{d}); ok && !c01OutOfUniverse(doc) {
					xmls = append(xmls, renderDoc(doc, rvDefault))
				}
			}
		}
	}
	xmls = append(xmls, `<r><a>`, ``, `<r>1</r><s/>`, `<r><a k="1">1.5</a><a>true</a><k>x</k></r>`)
	var jsons []string
	g := newGen(GenP{Keys: []string{"a", "k"}, MaxList: 2, MaxKeys: 2, EmptyList: true, EmptyMap: true, ListInList: false, Leaves: []interface{}{"s", "<&>", 1.5, nullLeaf{}}})
	g.rootMaps(4, func(t *T) { jsons = append(jsons, jsonOf(inst(t, nil))) })
	jsons = append(jsons, `{"a":`, ``, `[1,{"k":2}]`, `{"a":"x\\"}`)
	if c.Shard == 0 {
		c.Count("xml_documents", int64(len(xmls)))
		c.Count("json_documents", int64(len(jsons)))
	}
	keys := []string{"a", "b", "k", "z", "*"}
	paths := []string{"r", "r.a", "r.*", "*.a", "r.a.b", "a", "a.k", "*", "k[0]", "a[1].k", "z"}
	subs := [][]string{nil, {"k:*"}, {"-x:v"}, {"!a:*"}}
	pairs := [][]string{{"r.a:x"}, {"a:x.y", "k"}, {"*:q"}, {"a:"}}
	run := func(k c20Case) {
		if !c.Mine() {
			return
		}
		c.S.States++
		c.S.Evaluations++
		for _, pol := range []int{rt.PolicySorted, rt.PolicyReverse} {
			rt.OrderPolicy = pol
			c.S.Schedules++
			if c20Pair(c, k, nil) && pol == rt.PolicySorted {
				c.S.Nontrivial++
				if c.sampleN < 4 {
					c.Sample(k)
				}
				c.sampleN++
			}
		}
		rt.OrderPolicy = rt.PolicySorted
	}
	for _, x := range xmls {
		for _, fn := range []string{"x2j.XmlToMap", "x2j.MapToXml", "x2j.XmlLeafNodes", "x2j.XmlLeafValues", "x2j.XmlLeafPath", "x2jw.Unmarshal(map)", "x2jw.Unmarshal(string)"} {
			run(c20Case{Fn: fn, Xml: x})
		}
		for _, flag := range []bool{false, true} {
			for _, fn := range []string{"x2j.XmlToJson", "x2j.XmlToJsonWriter", "x2j.XmlReaderToJson", "x2j.XmlReaderToJsonWriter", "x2jw.DocToMap", "x2jw.ByteDocToMap", "x2jw.DocToJson", "x2jw.ByteDocToJson", "x2jw.DocToJsonIndent", "x2jw.ToJson", "x2jw.ToJsonIndent", "x2jw.ToMap", "x2jw.XmlBufferToMap", "x2jw.XmlBufferToJson"} {
				run(c20Case{Fn: fn, Xml: x, Flag: flag})
			}
		}
		for _, key := range keys {
			for _, fn := range []string{"x2j.XmlPathsForTag", "x2j.XmlPathForTagShortest", "x2jw.PathsForTag", "x2jw.BytePathsForTag", "x2jw.PathForTagShortest", "x2jw.BytePathForTagShortest"} {
				run(c20Case{Fn: fn, Xml: x, Key: key})
			}
			for _, s := range subs {
				run(c20Case{Fn: "x2j.XmlValuesForTag", Xml: x, Key: key, Sub: s})
			}
		}
		for _, p := range paths {
			for _, s := range subs {
				run(c20Case{Fn: "x2j.XmlValuesForPath", Xml: x, Path: p, Sub: s})
				run(c20Case{Fn: "x2j.XmlUpdateValsForPath", Xml: x, Path: p, Sub: s})
			}
			for _, flag := range []bool{false, true} {
				run(c20Case{Fn: "x2jw.ValuesFromTagPath", Xml: x, Path: p, Flag: flag})
				run(c20Case{Fn: "x2jw.ReaderValuesFromTagPath", Xml: x, Path: p, Flag: flag})
				run(c20Case{Fn: "x2jw.ValuesAtTagPath", Xml: x, Path: p, Flag: flag})
				if strings.Contains(p, "*") && strings.Contains(x, "=\"") {
					run(c20Case{Fn: "x2jw.ValuesFromTagPath(@)", Xml: x, Path: p, Flag: flag})
				}
			}
		}
		for _, pr := range pairs {
			run(c20Case{Fn: "x2j.XmlNewXml", Xml: x, Pairs: pr})
			run(c20Case{Fn: "x2j.XmlNewJson", Xml: x, Pairs: pr})
		}
	}
	// streams of 2..3 documents through the wrapper's stream functions (plain io.Reader)
	sd := []string{`<a/>`, `<a>x</a>`, `<a b="1"><c/>t</a>`, `<r><k>1.5</k><k>true</k></r>`, `<m><e><![CDATA[a <b  <c]]></e><f>1 &lt; 2 &amp; 3</f></m>`}
	for _, x := range []string{`<r><a>Inf</a><b>-Inf</b><c>NaN</c><d>1.5</d></r>`, `<r a="inf">nan</r>`, `<r>x</r>`} {
		run(c20Case{Fn: "x2jw.CastNanInf", Xml: x, Flag: true})
		run(c20Case{Fn: "x2jw.CastNanInf", Xml: x, Flag: false})
	}
	for _, d1 := range sd {
		for _, d2 := range sd {
			for _, sep := range []string{"", "\n "} {
				for _, flag := range []bool{false, true} {
					run(c20Case{Fn: "x2jw.XmlMsgsFromReader", Xml: d1 + sep + d2, Pairs: []string{d1, d2}, Flag: flag})
					run(c20Case{Fn: "x2jw.XmlMsgsFromReader(stop)", Xml: d1 + sep + d2, Flag: flag})
					run(c20Case{Fn: "x2jw.XmlMsgsFromReaderAsJson(stop)", Xml: d1 + sep + d2 + sep + d1, Flag: flag})
					run(c20Case{Fn: "x2jw.XmlMsgsFromReaderAsJson", Xml: d1 + sep + d2 + sep + d1, Pairs: []string{d1, d2, d1}, Flag: flag})
					run(c20Case{Fn: "x2jw.XmlMsgsFromFile", Xml: d1 + sep + d2, Pairs: []string{d1, d2}, Flag: flag})
					run(c20Case{Fn: "x2jw.XmlMsgsFromFileAsJson", Xml: d1 + sep + d2 + sep + d1, Pairs: []string{d1, d2, d1}, Flag: flag})
				}
			}
		}
	}
	jd := []string{`{"a":1}`, `{"k":{"a":"<&>"}}`, `{"a":[1,{"k":"}"}]}`}
	for _, d1 := range jd {
		for _, d2 := range jd {
			run(c20Case{Fn: "j2x.JsonReaderToXml(stream)", Pairs: []string{d1, d2}})
			run(c20Case{Fn: "j2x.JsonReaderToXmlWriter(stream)", Pairs: []string{d1, d2}})
		}
	}
	for _, j := range jsons {
		for _, fn := range []string{"j2x.JsonToMap", "j2x.JsonToXml", "j2x.JsonToXmlWriter", "j2x.JsonReaderToXml", "j2x.JsonReaderToXmlWriter", "j2x.JsonLeafNodes", "j2x.JsonLeafValues", "j2x.JsonLeafPath"} {
			run(c20Case{Fn: fn, Json: j})
		}
		for _, flag := range []bool{false, true} {
			run(c20Case{Fn: "j2x.MapToJson", Json: j, Flag: flag})
		}
		for _, key := range keys {
			run(c20Case{Fn: "j2x.JsonPathsForKey", Json: j, Key: key})
			run(c20Case{Fn: "j2x.JsonPathForKeyShortest", Json: j, Key: key})
			for _, s := range subs {
				run(c20Case{Fn: "j2x.JsonValuesForKey", Json: j, Key: key, Sub: s})
			}
		}
		for _, p := range paths {
			for _, s := range subs {
				run(c20Case{Fn: "j2x.JsonValuesForKeyPath", Json: j, Path: p, Sub: s})
				run(c20Case{Fn: "j2x.JsonUpdateValsForPath", Json: j, Path: p, Sub: s})
			}
		}
		for _, pr := range pairs {
			run(c20Case{Fn: "j2x.JsonNewJson", Json: j, Pairs: pr})
			run(c20Case{Fn: "j2x.JsonNewXml", Json: j, Pairs: pr})
		}
	}
	// ---- part 2: the wrapper's own walkers
	n, ech := 5, 4
	if c.Thorough {
		n, ech = 6, 5
	}
	var wpaths []string
	seqs([]string{"a", "k", "-x", "z", "*"}, 3, func(s []string) { wpaths = append(wpaths, strings.Join(s, ".")) })
	g2 := newGen(GenP{Keys: []string{"a", "k", "-x"}, MaxList: 3, MaxKeys: 3, EmptyList: true, EmptyMap: true, ListInList: true})
	walker := func(t *T, nodes int, fn, key, path string, flag bool) {
		if !c.Mine() {
			return
		}
		c.S.States++
		c.S.Evaluations++
		f := func(ch []int) bool {
			c.S.Schedules++
			return c20Walkers(c, inst(t, strLeaves()).(map[string]interface{}), fn, key, path, flag, ch)
		}
		rt.OrderPolicy = rt.PolicySorted
		nt := f(nil)
		rt.OrderPolicy = rt.PolicyReverse
		f(nil)
		if nt {
			c.S.Nontrivial++
		}
		if nt && nodes <= ech {
			rt.OrderPolicy = rt.PolicyChoose
			ex := &Explorer{Bound: 1, MaxExecs: 3000, Run: func() { f(curExec.prefix) }, Check: func(x *Exec) bool { return true }}
			ex.Explore()
			if ex.Diverged != "" {
				c.Broken("C20: %s", ex.Diverged)
			}
			c.S.BoundCompleted = 1
		}
		rt.OrderPolicy = rt.PolicySorted
	}
	g2.rootMaps(n, func(t *T) {
		nodes := countNodes(t)
		for _, key := range []string{"a", "k", "-x", "z"} {
			walker(t, nodes, "x2jw.PathsForKey", key, "", false)
			walker(t, nodes, "x2jw.PathForKeyShortest", key, "", false)
		}
		for _, p := range wpaths {
			for _, flag := range []bool{false, true} {
				walker(t, nodes, "x2jw.ValuesFromKeyPath", "", p, flag)
				walker(t, nodes, "x2jw.ValuesAtKeyPath", "", p, flag)
			}
		}
	})
	// sibling family: a list of two small maps under one key (what repeated XML elements decode to): members
	// that hold the key at different depths, in either order - beyond the node bound of the plain enumeration
	gs := newGen(GenP{Keys: []string{"a", "k"}, MaxList: 2, MaxKeys: 2, EmptyList: false, EmptyMap: true, ListInList: false})
	var sibs []*T
	gs.values(4, func(t *T) {
		if t.Kind == 'M' {
			sibs = append(sibs, t)
		}
	})
	for _, m1 := range sibs {
		for _, m2 := range sibs {
			for _, top := range []string{"a", "k"} {
				t := &T{Kind: 'M', Keys: []string{top}, Kids: []*T{{Kind: 'L', Kids: []*T{m1, m2}}}}
				for _, key := range []string{"a", "k"} {
					walker(t, 99, "x2jw.PathsForKey", key, "", false)
					walker(t, 99, "x2jw.PathForKeyShortest", key, "", false)
				}
				for _, p := range []string{top + ".a", top + ".k", top + ".*", top + ".a.k", top + ".*.k", "*.k", "*.*.k", top + ".a.a"} {
					walker(t, 99, "x2jw.ValuesFromKeyPath", "", p, false)
					walker(t, 99, "x2jw.ValuesAtKeyPath", "", p, false)
				}
			}
		}
	}
	resetOptions()
}
