package main

import (
	"encoding/json"
	"fmt"
	"strconv"
	"strings"

	mxj "github.com/clbanning/mxj/v2"
	"github.com/clbanning/mxj/v2/j2x"
	rt "github.com/clbanning/mxj/v2/zzverifrt"
)

// C09 — LeafNodes lists every terminal value once, with a path that resolves to it.

type c09Case struct {
	Toggle bool            `json:"dot_notation_reached_by_toggling,omitempty"`
	Map    json.RawMessage `json:"map"`
	Prefix string          `json:"attr_prefix"`
	NoAttr bool            `json:"no_attr"`
	Dot    bool            `json:"dot_notation"`
	Pol    int             `json:"order_policy"`
	Dag    string          `json:"map_with_shared_containers,omitempty"` // built by dagMaps()[Dag] ("map" shows it unfolded)
}

func init() {
	register(&Property{ID: "C09", Run: c09Run, Replay: func(c *Ctx, cas json.RawMessage, ch []int) {
		var k c09Case
		json.Unmarshal(cas, &k)
		m := fromJSON(string(k.Map)).(map[string]interface{})
		if k.Dag != "" {
			m = dagMaps()[k.Dag]()
			curDag = k.Dag
			defer func() { curDag = "" }()
		}
		applyCfg(Cfg{AttrPrefix: k.Prefix, KeyPrefix: "#", DotNot: k.Dot})
		if k.Toggle {
			c09Toggle(k.Dot)
		}
		c09Toggled = k.Toggle
		rt.OrderPolicy = k.Pol
		c09Check(c, m, k.Prefix, k.NoAttr, k.Dot)
		rt.OrderPolicy = rt.PolicySorted
		resetOptions()
	}})
}

// c09Toggle reaches the dot-notation setting through the argument-less (toggling) form.
func c09Toggle(dot bool) {
	mxj.LeafUseDotNotation(!dot) // explicit opposite ...
	mxj.LeafUseDotNotation()     // ... then toggle into the wanted state
}

var c09Toggled bool

type refLeaf struct {
	path string
	val  interface{}
}

// refLeaves: one entry per scalar value; path in dot notation with [N] (or .N) for list members;
// with noattr, attribute entries are dropped and the text-key segment is omitted.
func refLeaves(v interface{}, path string, prefix string, noattr, dot bool, out *[]refLeaf) {
	switch t := v.(type) {
	case map[string]interface{}:
		for _, k := range sortedKeys(t) {
			if noattr && prefix != "" && strings.HasPrefix(k, prefix) {
				continue
			}
			p := path
			if !(noattr && k == "#text") {
				if p != "" {
					p += "."
				}
				p += k
			}
			refLeaves(t[k], p, prefix, noattr, dot, out)
		}
	case []interface{}:
		for i, e := range t {
			if dot {
				p := path
				if p != "" {
					p += "."
				}
				refLeaves(e, p+strconv.Itoa(i), prefix, noattr, dot, out)
			} else {
				refLeaves(e, path+"["+strconv.Itoa(i)+"]", prefix, noattr, dot, out)
			}
		}
	default:
		*out = append(*out, refLeaf{path, v})
	}
}

func pathSafeKeys(v interface{}) bool {
	switch t := v.(type) {
	case map[string]interface{}:
		for k, e := range t {
			if k == "" || strings.ContainsAny(k, ".[*") {
				return false
			}
			if !pathSafeKeys(e) {
				return false
			}
		}
	case []interface{}:
		for _, e := range t {
			if !pathSafeKeys(e) {
				return false
			}
		}
	}
	return true
}

func hasEmptyKey(v interface{}) bool {
	switch t := v.(type) {
	case map[string]interface{}:
		for k, e := range t {
			if k == "" || hasEmptyKey(e) {
				return true
			}
		}
	case []interface{}:
		for _, e := range t {
			if hasEmptyKey(e) {
				return true
			}
		}
	}
	return false
}

func c09Check(c *Ctx, m map[string]interface{}, prefix string, noattr, dot bool) (nontrivial bool) {
	mv := mxj.Map(m)
	cas := func() interface{} {
		return c09Case{Dag: curDag, Map: json.RawMessage(jsonOf(m)), Prefix: prefix, NoAttr: noattr, Dot: dot, Pol: rt.OrderPolicy, Toggle: c09Toggled}
	}
	shape := "plain"
	if hasEmptyKey(m) {
		shape = "empty-key"
	} else if !pathSafeKeys(m) {
		shape = "special-key"
	}
	if noattr {
		shape += ",no-attr"
	}
	if dot {
		shape += ",dot"
	}
	var exp []refLeaf
	refLeaves(m, "", prefix, noattr, dot, &exp)
	var ln []mxj.LeafNode
	var lp []string
	var lv []interface{}
	st, pan := protect(func() {
		if noattr {
			ln = mv.LeafNodes(mxj.NoAttributes)
			lp = mv.LeafPaths(mxj.NoAttributes)
			lv = mv.LeafValues(mxj.NoAttributes)
		} else if len(m)%2 == 0 {
			ln = mv.LeafNodes()
			lp = mv.LeafPaths()
			lv = mv.LeafValues()
		} else {
			// the explicit "false" form must mean the same as no argument
			ln = mv.LeafNodes(false)
			lp = mv.LeafPaths(false)
			lv = mv.LeafValues(false)
		}
	})
	c.S.Transitions += 3
	if pan {
		c.Violate("Map.LeafNodes", "panic", shape, cas, nil, st)
		return
	}
	c.RetainVal("Map.LeafNodes", ln, cas)
	c.RetainVal("Map.LeafPaths", lp, cas)
	c.RetainVal("Map.LeafValues", lv, cas)
	enc := func(p string, v interface{}) string { return p + " = " + dump(v) }
	var e, g []string
	for _, l := range exp {
		e = append(e, enc(l.path, l.val))
	}
	for _, l := range ln {
		g = append(g, enc(l.Path, l.Value))
	}
	if !eqStrings(sortedCopy(e), sortedCopy(g)) {
		c.Violate("Map.LeafNodes", "enumeration", shape, cas, nil, fmt.Sprintf("map=%s prefix=%q noattr=%v dot=%v\n expected=%v\n   actual=%v", jsonOf(m), prefix, noattr, dot, sortedCopy(e), sortedCopy(g)))
		return len(exp) > 0
	}
	c.Outcome(strings.Join(g, "|"))
	// projections
	var gp, gv, ep, evs []string
	for _, l := range ln {
		ep = append(ep, l.Path)
		evs = append(evs, dump(l.Value))
	}
	gp = append(gp, lp...)
	for _, v := range lv {
		gv = append(gv, dump(v))
	}
	if !eqStrings(sortedCopy(ep), sortedCopy(gp)) {
		c.Violate("Map.LeafPaths", "projection", shape, cas, nil, fmt.Sprintf("map=%s prefix=%q noattr=%v\n LeafNodes paths=%v\n LeafPaths      =%v", jsonOf(m), prefix, noattr, sortedCopy(ep), sortedCopy(gp)))
	}
	if !eqStrings(sortedCopy(evs), sortedCopy(gv)) {
		c.Violate("Map.LeafValues", "projection", shape, cas, nil, fmt.Sprintf("map=%s prefix=%q noattr=%v\n LeafNodes values=%v\n LeafValues      =%v", jsonOf(m), prefix, noattr, sortedCopy(evs), sortedCopy(gv)))
	}
	// the j2x wrappers are LeafNodes / LeafPaths / LeafValues of the decoded JSON document (all entries kept)
	if !noattr {
		js := []byte(jsonOf(m))
		var jn []mxj.LeafNode
		var jp []string
		var jv []interface{}
		var e1, e2, e3 error
		st, pan := protect(func() {
			jn, e1 = j2x.JsonLeafNodes(js)
			jp, e2 = j2x.JsonLeafPath(js)
			jv, e3 = j2x.JsonLeafValues(js)
		})
		c.S.Transitions += 3
		var jg, jvs []string
		for _, l := range jn {
			jg = append(jg, enc(l.Path, l.Value))
		}
		for _, v := range jv {
			jvs = append(jvs, dump(v))
		}
		if pan || e1 != nil || e2 != nil || e3 != nil || !eqStrings(sortedCopy(jg), sortedCopy(g)) || !eqStrings(sortedCopy(jp), sortedCopy(gp)) || !eqStrings(sortedCopy(jvs), sortedCopy(gv)) {
			c.Violate("j2x.JsonLeafNodes", "wrapper-agrees", shape, cas, nil, fmt.Sprintf("map=%s prefix=%q\n Map.LeafNodes    =%v\n j2x.JsonLeafNodes=%v\n j2x.JsonLeafPath =%v\n j2x.JsonLeafValues=%v errs=%v %v %v %s", jsonOf(m), prefix, sortedCopy(g), sortedCopy(jg), sortedCopy(jp), sortedCopy(jvs), e1, e2, e3, st))
		}
	}
	// resolution: bracket notation, all entries kept, path-safe keys, no list-in-list
	if !dot && !noattr && shape == "plain" && !hasListInList(m) {
		for _, l := range ln {
			var vs []interface{}
			var err error
			st, pan := protect(func() { vs, err = mv.ValuesForPath(l.Path) })
			c.S.Transitions++
			if pan || err != nil || len(vs) != 1 || !deepEq(vs[0], l.Value) {
				c.Violate("Map.LeafNodes", "resolution", shape, cas, nil, fmt.Sprintf("map=%s leaf path=%q value=%s but ValuesForPath=%v err=%v %s", jsonOf(m), l.Path, dump(l.Value), dumpSeq(vs), err, st))
				break
			}
		}
	}
	return len(exp) > 0
}

func c09Run(c *Ctx) {
	mustBeDefault(c)
	c.S.Rule = "cases = (Map, attribute prefix, no-attributes, dot-notation): every Map template with <= N nodes over keys {a, y<prefix>z, <prefix>x, #text} (enumeration + resolution clauses) and over {a, \"\", a.b, <prefix>x} (enumeration clause with arbitrary keys incl. the empty key) and over {a, a], ' ', k:} (keys with a closing bracket, a blank-only key, default prefix), leaves incl. null, plus Maps decoded from the U-XML documents, 8 Maps with shared containers (one map or list object reachable at several places: one leaf per path that reaches it) and a scale family (lists of 11, 101, 1025 scalars / maps); prefixes {-, @, \"\", attr_} (dot notation set explicitly for two of them and reached through the toggling form for the other two); explicit false and omitted no_attr argument alternate; each under ascending and descending map order; plus every sequence of <= 3 (notation switch in {bare toggle, explicit on, explicit off}, LeafNodes/LeafPaths/LeafValues on one of 4 Maps with lists of different lengths) steps in one process. Results are retained and re-checked after later calls. Oracle: reference leaf list (multiset of path=value), LeafPaths/LeafValues are projections, j2x.JsonLeafNodes / JsonLeafPath / JsonLeafValues of the Map's JSON text agree with them, every leaf path resolves through ValuesForPath to exactly its value. non-trivial = at least one leaf."
	c.S.Assumptions = []string{"reference leaf enumeration in harness/c09.go", "resolution clause restricted as the property states (keys free of . [ *, no list-in-list, bracket notation)"}
	n := 5
	if c.Thorough {
		n = 6
	}
	// Maps with shared containers: one leaf per path that reaches it
	for _, name := range dagNames() {
		mk := dagMaps()[name]
		for _, dot := range []bool{false, true} {
			for _, noattr := range []bool{false, true} {
				if !c.Mine() {
					continue
				}
				applyCfg(Cfg{AttrPrefix: "-", KeyPrefix: "#", DotNot: dot})
				curDag = name
				c.S.States++
				c.S.Evaluations++
				for _, pol := range []int{rt.PolicySorted, rt.PolicyReverse} {
					rt.OrderPolicy = pol
					c09Check(c, mk(), "-", noattr, dot)
					c.S.Schedules++
				}
				rt.OrderPolicy = rt.PolicySorted
				curDag = ""
			}
		}
	}
	resetOptions()
	for _, prefix := range []string{"-", "@", "", "attr_"} {
		for _, dot := range []bool{false, true} {
			applied := false
			for fam := 0; fam < 3; fam++ {
				// "y<prefix>z" contains the attribute prefix in a non-leading position: not an attribute
				keys := []string{"a", "y" + prefix + "z", prefix + "x", "#text"}
				if len(prefix) > 1 {
					// an ordinary key that shares only the first byte of a longer prefix, and is longer than it
					keys = append(keys, prefix[:1]+"zzzzzz")
				}
				if fam == 1 {
					keys = []string{"a", "", "a.b", prefix + "x"}
				}
				if fam == 2 {
					// keys with a closing bracket or other punctuation are inside the resolution clause's domain
					// (it excludes only '.', '[' and '*'); "a]" has the plain key "a" as a prefix
					if prefix != "-" {
						continue
					}
					keys = []string{"a", "a]", " ", "k:"}
				}
				g := newGen(GenP{Keys: keys, MaxList: 3, MaxKeys: 3, EmptyList: true, EmptyMap: true, ListInList: fam == 1,
					Leaves: []interface{}{"v", nullLeaf{}}})
				g.rootMaps(n, func(t *T) {
					for _, noattr := range []bool{false, true} {
						if !c.Mine() {
							continue
						}
						if !applied {
							applyCfg(Cfg{AttrPrefix: prefix, KeyPrefix: "#", DotNot: dot})
							c09Toggled = prefix == "@" || prefix == ""
							if c09Toggled {
								c09Toggle(dot) // same setting, reached through the toggling form
							}
							applied = true
						}
						c.S.States++
						c.S.Evaluations++
						for _, pol := range []int{rt.PolicySorted, rt.PolicyReverse} {
							rt.OrderPolicy = pol
							n := 0
							m := inst(t, func() interface{} { n++; return "v" + strconv.Itoa(n) }).(map[string]interface{})
							// make string leaves unique so that resolution is decisive
							uniq(m, &n)
							nt := c09Check(c, m, prefix, noattr, dot)
							c.S.Schedules++
							c.S.Validated++
							if pol == rt.PolicySorted && nt {
								c.S.Nontrivial++
								c.Sample(map[string]interface{}{"map": json.RawMessage(jsonOf(m)), "prefix": prefix, "no_attr": noattr, "dot": dot})
							}
						}
						rt.OrderPolicy = rt.PolicySorted
					}
				})
			}
		}
	}
	c09Toggled = false
	// decoded XML documents (default prefix and "@")
	for _, prefix := range []string{"-", "@"} {
		applyCfg(Cfg{AttrPrefix: prefix, KeyPrefix: "#"})
		for nn := 1; nn <= 4; nn++ {
			for _, base := range baseTrees(nn, "r", []string{"a", "b"}, 3) {
				docs := []*XElem{base}
				for _, d := range c01Decos(base, false) {
					if d.Kind == 'a' || d.Kind == 't' {
						if doc, ok := applyDecos(base, []Deco{d, {Kind: 'a', El: 0, Name: "y", Value: "w"}}); ok && !c01OutOfUniverse(doc) {
							docs = append(docs, doc)
						}
					}
				}
				for _, doc := range docs {
					for _, noattr := range []bool{false, true} {
						if !c.Mine() {
							continue
						}
						m, err := mxj.NewMapXml([]byte(renderDoc(doc, rvDefault)))
						if err != nil {
							continue
						}
						c.S.States++
						c.S.Evaluations++
						c.S.Schedules++
						c.S.Validated++
						if c09Check(c, m, prefix, noattr, false) {
							c.S.Nontrivial++
						}
					}
				}
			}
		}
	}
	// scale family: lists of 11, 101 and 1025 members (subscripts of 2, 3 and 4 digits), scalars and maps
	for _, dot := range []bool{false, true} {
		applyCfg(Cfg{AttrPrefix: "-", KeyPrefix: "#", DotNot: dot})
		c09Toggled = false
		for _, n := range []int{11, 101, 1025} {
			for _, kind := range []int{0, 1} {
				for _, noattr := range []bool{false, true} {
					if !c.Mine() {
						continue
					}
					c.S.States++
					c.S.Evaluations++
					l := make([]interface{}, n)
					for i := range l {
						if kind == 0 {
							l[i] = "v" + strconv.Itoa(i)
						} else {
							l[i] = map[string]interface{}{"k": "w" + strconv.Itoa(i), "-x": "a" + strconv.Itoa(i), "b": []interface{}{"p" + strconv.Itoa(i), "q" + strconv.Itoa(i)}}
						}
					}
					c09Check(c, map[string]interface{}{"a": l, "k": "z"}, "-", noattr, dot)
					c.S.Schedules++
					c.S.Validated++
				}
			}
		}
	}
	// notation switched between calls in one process: bare toggles and explicit calls interleaved, on Maps
	// with lists of different lengths (a later call meets indices both seen and not yet seen before)
	resetOptions()
	hist := []string{`{"a":["p","q"]}`, `{"a":["p","q","r","s"],"k":{"a":[{"a":"p"},{"a":["q","r","s"]}]}}`, `{"a":["p"]}`, `{"a":[["p","q"],["r"]]}`}
	type sw struct {
		name string
		f    func()
		dot  func(bool) bool
	}
	sws := []sw{
		{"toggle", func() { mxj.LeafUseDotNotation() }, func(d bool) bool { return !d }},
		{"on", func() { mxj.LeafUseDotNotation(true) }, func(bool) bool { return true }},
		{"off", func() { mxj.LeafUseDotNotation(false) }, func(bool) bool { return false }},
	}
	var seqRec func(depth int, dot bool, trail []string)
	seqRec = func(depth int, dot bool, trail []string) {
		if depth == 3 {
			return
		}
		for _, s := range sws {
			for hi := range hist {
				// replay the whole trail on a fresh option state (stateless search: successor = replay + 1 step)
				if !c.Mine() {
					continue
				}
				c.S.States++
				c.S.Evaluations++
				mxj.LeafUseDotNotation(false)
				d := false
				for i := 0; i < len(trail); i += 2 {
					for _, t := range sws {
						if t.name == trail[i] {
							t.f()
							d = t.dot(d)
						}
					}
					hj, _ := strconv.Atoi(trail[i+1])
					c09Toggled = true
					c09Check(c, fromJSON(hist[hj]).(map[string]interface{}), "-", false, d)
				}
				s.f()
				d = s.dot(d)
				c09Toggled = true
				c09Check(c, fromJSON(hist[hi]).(map[string]interface{}), "-", false, d)
				c.S.Schedules++
				c.S.Validated++
			}
		}
		for _, s := range sws {
			for hi := range hist {
				seqRec(depth+1, s.dot(dot), append(append([]string(nil), trail...), s.name, strconv.Itoa(hi)))
			}
		}
	}
	seqRec(0, false, nil)
	c09Toggled = false
	resetOptions()
}

// uniq rewrites string leaves to unique values.
func uniq(v interface{}, n *int) {
	switch t := v.(type) {
	case map[string]interface{}:
		for _, k := range sortedKeys(t) {
			if _, ok := t[k].(string); ok {
				*n++
				t[k] = "u" + strconv.Itoa(*n)
			} else {
				uniq(t[k], n)
			}
		}
	case []interface{}:
		for i, e := range t {
			if _, ok := e.(string); ok {
				*n++
				t[i] = "u" + strconv.Itoa(*n)
			} else {
				uniq(e, n)
			}
		}
	}
}
