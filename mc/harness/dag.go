package main

// Maps with shared containers: one and the same map or list object is reachable at more than one place - what
// a caller gets by putting one defaults map under two keys, one {"-nil":"true"} map under several elements,
// or one map twice into a list. A decode never produces them and a generator that builds values node by node
// never does either, but they are Maps: every query and encoder is defined on them by what is reachable, a
// value inside the shared part is at every path that leads to it and is written / counted once per path.
// (Acyclic only: a Map that contains itself has no finite encoding and is outside every property.)

// curDag: name of the shared-container Map of the current case ("" = an ordinary tree); replays rebuild the
// Map from dagMaps()[name] because a JSON rendering of the case loses the sharing.
var curDag string

func dagMaps() map[string]func() map[string]interface{} {
	M := func(kv ...interface{}) map[string]interface{} {
		m := map[string]interface{}{}
		for i := 0; i+1 < len(kv); i += 2 {
			m[kv[i].(string)] = kv[i+1]
		}
		return m
	}
	L := func(v ...interface{}) []interface{} {
		if v == nil {
			return []interface{}{}
		}
		return v
	}
	return map[string]func() map[string]interface{}{
		"one map under two keys": func() map[string]interface{} {
			sub := M("k", "v1", "a", M("k", "v2"))
			return M("r", M("a", sub, "ab", sub))
		},
		"one map twice in a list": func() map[string]interface{} {
			sub := M("k", "v1", "a", "s")
			return M("r", M("a", L(sub, sub), "k", "v0"))
		},
		"one map at two depths": func() map[string]interface{} {
			sub := M("k", L("x", M("k", "y", "a", "s")))
			return M("r", M("a", M("ab", sub), "ab", L(M("a", sub))))
		},
		"one list under two keys": func() map[string]interface{} {
			l := L(M("k", "v1"), M("a", "s", "k", "v2"))
			return M("r", M("a", l, "ab", M("k", l)))
		},
		"one attribute-only map under three keys": func() map[string]interface{} {
			sub := M("-x", "1")
			return M("r", M("a", sub, "ab", sub, "k", L(sub, "t")))
		},
		"one text-and-attribute map under two keys": func() map[string]interface{} {
			sub := M("#text", "t", "-x", "1")
			return M("r", M("a", sub, "k", M("a", sub, "k", "v")))
		},
		"one text-only map twice in a list": func() map[string]interface{} {
			sub := M("#text", "t")
			return M("r", M("a", L(sub, sub, M("#text", "u")), "k", sub))
		},
		"one empty map and one empty list shared": func() map[string]interface{} {
			e, l := M(), L()
			return M("r", M("a", e, "ab", e, "k", L(l, "s"), "z", M("k", l)))
		},
	}
}

func dagNames() []string {
	var r []string
	for k := range dagMaps() {
		r = append(r, k)
	}
	return sortedCopy(r)
}
