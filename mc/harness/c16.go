package main

import (
	"bytes"
	"encoding/json"
	"errors"
	"fmt"
	"os"
	"path/filepath"
	"strings"

	mxj "github.com/clbanning/mxj/v2"
	rt "github.com/clbanning/mxj/v2/zzverifrt"
)

// C16 — Encoders are deterministic and all their variants agree.

type c16Case struct {
	Kind    string          `json:"kind"` // map | mapseq | maps
	Xml     string          `json:"xml,omitempty"`
	Json    json.RawMessage `json:"json,omitempty"`
	List    []string        `json:"xml_list,omitempty"`
	Enc     string          `json:"encoder,omitempty"`
	Pol     int             `json:"order_policy"`
	GoEmpty bool            `json:"xml_go_empty_elem_syntax,omitempty"` // XmlGoEmptyElemSyntax() in force
	Via     string          `json:"mapseq_rebuilt_via,omitempty"`       // "json" | "json-number": the MapSeq went through Json() and NewMapJson (with JsonUseNumber)
}

func init() {
	register(&Property{ID: "C16", Run: c16Run, Replay: func(c *Ctx, cas json.RawMessage, ch []int) {
		var k c16Case
		json.Unmarshal(cas, &k)
		resetOptions()
		mxj.XMLEscapeChars(true)
		src := c16Source{kind: k.Kind, xml: k.Xml, js: string(k.Json), list: k.List, via: k.Via}
		if k.GoEmpty {
			mxj.XmlGoEmptyElemSyntax()
			c16GoEmpty = true
			defer func() { c16GoEmpty = false }()
		}
		if k.Kind == "odd-root" {
			c16OddRoot(c, string(k.Json))
		} else if k.Kind == "sinks" {
			c16Sinks(c, k.Xml)
			c16RawOnFailingSink(c, k.Xml)
			c16FullDevice(c, k.Xml)
		} else {
			c16Explore(c, src, 2, true)
		}
		rt.OrderPolicy = rt.PolicySorted
		resetOptions()
	}})
}

type c16Source struct {
	kind string
	xml  string
	js   string
	list []string
	via  string
}

func (s c16Source) cas() c16Case {
	k := c16Case{Kind: s.kind, Xml: s.xml, List: s.list, Pol: rt.OrderPolicy, Via: s.via, GoEmpty: c16GoEmpty}
	if s.js != "" {
		k.Json = json.RawMessage(s.js)
	}
	return k
}

// c16GoEmpty: XmlGoEmptyElemSyntax() is in force for the current case.
var c16GoEmpty bool

// sinks
var errSink = errors.New("sink failed")

type failWriter struct{}

func (failWriter) Write(p []byte) (int, error) { return 0, errSink }

type shortWriter struct{ buf bytes.Buffer }

func (w *shortWriter) Write(p []byte) (int, error) {
	n := len(p) / 2
	w.buf.Write(p[:n])
	return n, errSink
}

// quotaWriter accepts quota bytes, fails once (reporting the partial count with the error) and accepts
// everything offered afterwards: a caller that goes on writing after the error leaves a gap in buf.
type quotaWriter struct {
	quota  int
	buf    bytes.Buffer
	failed bool
	after  int // Write calls after the failure
}

func (w *quotaWriter) Write(p []byte) (int, error) {
	if w.failed {
		w.after++
		w.buf.Write(p)
		return len(p), nil
	}
	if w.buf.Len()+len(p) <= w.quota {
		w.buf.Write(p)
		return len(p), nil
	}
	n := w.quota - w.buf.Len()
	w.buf.Write(p[:n])
	w.failed = true
	return n, errSink
}

type enc16 struct {
	name string
	f    func() ([]byte, error)
}

func c16Dir() string {
	d := os.Getenv("MXJ_WORK")
	if d == "" {
		d = os.TempDir()
	}
	return d
}

// c16Encoders lists every encoder entry point for the source, each returning the bytes it
// produced (for Writer forms: the bytes that reached an accept-all sink).
func c16Encoders(c *Ctx, src c16Source, viol func(api, clause, detail string)) []enc16 {
	var es []enc16
	indents := [][2]string{{"", "  "}, {" ", " "}, {"", "\t"}, {"", ""}}
	switch src.kind {
	case "map":
		build := func() mxj.Map {
			if src.js == "null" {
				return nil // the nil Map (var m mxj.Map; what NewMapJson gives for "null")
			}
			if src.js != "" {
				return mxj.Map(fromJSON(src.js).(map[string]interface{}))
			}
			m, err := mxj.NewMapXml([]byte(src.xml))
			if err != nil {
				panic("c16: source does not decode: " + err.Error())
			}
			return m
		}
		es = append(es, enc16{"Map.Xml", func() ([]byte, error) { return build().Xml() }})
		es = append(es, enc16{"Map.XmlWriter", func() ([]byte, error) {
			var b bytes.Buffer
			err := build().XmlWriter(&b)
			return b.Bytes(), err
		}})
		es = append(es, enc16{"Map.Json", func() ([]byte, error) { return build().Json() }})
		es = append(es, enc16{"Map.Json(safe)", func() ([]byte, error) { return build().Json(true) }})
		es = append(es, enc16{"Map.JsonWriter", func() ([]byte, error) {
			var b bytes.Buffer
			err := build().JsonWriter(&b)
			return b.Bytes(), err
		}})
		es = append(es, enc16{"Map.JsonWriter(safe)", func() ([]byte, error) {
			var b bytes.Buffer
			err := build().JsonWriter(&b, true)
			return b.Bytes(), err
		}})
		for _, safe := range []bool{false, true} {
			safe := safe
			nm := "Map.JsonWriterRaw"
			if safe {
				nm += "(safe)"
			}
			es = append(es, enc16{nm, func() ([]byte, error) {
				var b bytes.Buffer
				var raw []byte
				var err error
				if safe {
					raw, err = build().JsonWriterRaw(&b, true)
				} else {
					raw, err = build().JsonWriterRaw(&b)
				}
				if err == nil && !bytes.Equal(raw, b.Bytes()) {
					viol(nm, "raw-equals-written", fmt.Sprintf("returned %q but wrote %q", raw, b.Bytes()))
				}
				return b.Bytes(), err
			}})
		}
		es = append(es, enc16{"Map.StringIndent", func() ([]byte, error) { return []byte(build().StringIndent()), nil }})
		for _, in := range indents {
			in := in
			tag := fmt.Sprintf("(%q,%q)", in[0], in[1])
			es = append(es, enc16{"Map.XmlIndent" + tag, func() ([]byte, error) { return build().XmlIndent(in[0], in[1]) }})
			es = append(es, enc16{"Map.XmlIndentWriter" + tag, func() ([]byte, error) {
				var b bytes.Buffer
				err := build().XmlIndentWriter(&b, in[0], in[1])
				return b.Bytes(), err
			}})
			es = append(es, enc16{"Map.JsonIndent" + tag, func() ([]byte, error) {
				// an explicit false is the default encoding too: both spellings must give the same bytes
				a, e1 := build().JsonIndent(in[0], in[1])
				b, e2 := build().JsonIndent(in[0], in[1], false)
				if (e1 != nil) != (e2 != nil) || !bytes.Equal(a, b) {
					viol("Map.JsonIndent", "explicit-false-equals-default", fmt.Sprintf("JsonIndent(p,i)=%q %v, JsonIndent(p,i,false)=%q %v", a, e1, b, e2))
				}
				return a, e1
			}})
			es = append(es, enc16{"Map.JsonIndentWriter" + tag, func() ([]byte, error) {
				var b bytes.Buffer
				err := build().JsonIndentWriter(&b, in[0], in[1])
				return b.Bytes(), err
			}})
			es = append(es, enc16{"Map.JsonIndentWriterRaw" + tag, func() ([]byte, error) {
				var b bytes.Buffer
				raw, err := build().JsonIndentWriterRaw(&b, in[0], in[1], true)
				if err == nil && !bytes.Equal(raw, b.Bytes()) {
					viol("Map.JsonIndentWriterRaw", "raw-equals-written", fmt.Sprintf("returned %q but wrote %q", raw, b.Bytes()))
				}
				ref, _ := build().JsonIndent(in[0], in[1], true)
				if err == nil && !bytes.Equal(raw, ref) {
					viol("Map.JsonIndentWriterRaw", "writer-equals-bytes", fmt.Sprintf("returned %q, JsonIndent(safe) = %q", raw, ref))
				}
				return b.Bytes(), err
			}})
		}
	case "mapseq":
		build := func() mxj.MapSeq {
			m, err := mxj.NewMapXmlSeq([]byte(src.xml), strings.HasSuffix(src.via, "-cast"))
			if err != nil {
				panic("c16: source does not decode: " + err.Error())
			}
			if src.via != "" {
				// the same MapSeq rebuilt from its JSON form (sequence numbers come back as float64, or as
				// json.Number under JsonUseNumber): "however they were built"
				j, jerr := mxj.Map(m).Json()
				if jerr != nil {
					panic("c16: " + jerr.Error())
				}
				mxj.JsonUseNumber = strings.HasPrefix(src.via, "json-number")
				m2, derr := mxj.NewMapJson(j)
				mxj.JsonUseNumber = false
				if derr != nil {
					panic("c16: " + derr.Error())
				}
				return mxj.MapSeq(m2)
			}
			return m
		}
		es = append(es, enc16{"MapSeq.Xml", func() ([]byte, error) { return build().Xml() }})
		es = append(es, enc16{"MapSeq.XmlWriter", func() ([]byte, error) {
			var b bytes.Buffer
			err := build().XmlWriter(&b)
			return b.Bytes(), err
		}})
		es = append(es, enc16{"MapSeq.StringIndent", func() ([]byte, error) { return []byte(build().StringIndent()), nil }})
		for _, in := range indents {
			in := in
			tag := fmt.Sprintf("(%q,%q)", in[0], in[1])
			es = append(es, enc16{"MapSeq.XmlIndent" + tag, func() ([]byte, error) { return build().XmlIndent(in[0], in[1]) }})
			es = append(es, enc16{"MapSeq.XmlIndentWriter" + tag, func() ([]byte, error) {
				var b bytes.Buffer
				err := build().XmlIndentWriter(&b, in[0], in[1])
				return b.Bytes(), err
			}})
		}
	case "maps":
		build := func() mxj.Maps {
			var ms mxj.Maps
			for _, x := range src.list {
				m, err := mxj.NewMapXml([]byte(x))
				if err != nil {
					panic("c16: source does not decode: " + err.Error())
				}
				ms = append(ms, m)
			}
			return ms
		}
		str := func(f func() (string, error)) func() ([]byte, error) {
			return func() ([]byte, error) { s, err := f(); return []byte(s), err }
		}
		file := func(name string, w func(path string) error) func() ([]byte, error) {
			return func() ([]byte, error) {
				p := filepath.Join(c16Dir(), fmt.Sprintf("c16-%d-%s", os.Getpid(), name))
				defer os.Remove(p)
				// the target already exists and is longer than what will be written
				os.WriteFile(p, bytes.Repeat([]byte("<old/>{\"old\":1}\n"), 200), 0o644)
				if err := w(p); err != nil {
					return nil, err
				}
				return os.ReadFile(p)
			}
		}
		es = append(es, enc16{"Maps.XmlString", str(func() (string, error) { return build().XmlString() })})
		es = append(es, enc16{"Maps.JsonString", str(func() (string, error) { return build().JsonString() })})
		es = append(es, enc16{"Maps.JsonString(safe)", str(func() (string, error) { return build().JsonString(true) })})
		es = append(es, enc16{"Maps.XmlFile", file("x.xml", func(p string) error { return build().XmlFile(p) })})
		es = append(es, enc16{"Maps.JsonFile", file("j.json", func(p string) error { return build().JsonFile(p) })})
		es = append(es, enc16{"Maps.JsonFile(safe)", file("js.json", func(p string) error { return build().JsonFile(p, true) })})
		for _, in := range indents[:2] {
			in := in
			tag := fmt.Sprintf("(%q,%q)", in[0], in[1])
			es = append(es, enc16{"Maps.XmlStringIndent" + tag, str(func() (string, error) { return build().XmlStringIndent(in[0], in[1]) })})
			es = append(es, enc16{"Maps.JsonStringIndent" + tag, str(func() (string, error) { return build().JsonStringIndent(in[0], in[1]) })})
			es = append(es, enc16{"Maps.JsonStringIndent(safe)" + tag, str(func() (string, error) { return build().JsonStringIndent(in[0], in[1], true) })})
			es = append(es, enc16{"Maps.XmlFileIndent" + tag, file("xi.xml", func(p string) error { return build().XmlFileIndent(p, in[0], in[1]) })})
			es = append(es, enc16{"Maps.JsonFileIndent" + tag, file("ji.json", func(p string) error { return build().JsonFileIndent(p, in[0], in[1]) })})
			es = append(es, enc16{"Maps.JsonFileIndent(safe)" + tag, file("jis.json", func(p string) error { return build().JsonFileIndent(p, in[0], in[1], true) })})
		}
	}
	return es
}

// sortedTokens: attributes ascending by name within each start tag, child element names non-decreasing.
func sortedTokens(x []byte) error {
	toks, err := rawTokens(x, true, true)
	if err != nil {
		return err
	}
	var stack []string // last child name seen per open element
	for _, t := range toks {
		switch {
		case strings.HasPrefix(t, "S:"):
			parts := strings.Split(t[2:], " ")
			name := parts[0]
			prev := ""
			for _, a := range parts[1:] {
				an := a
				if i := strings.Index(a, "="); i >= 0 {
					an = a[:i]
				}
				if !strings.Contains(a, "=") {
					continue // a fragment of a quoted value containing a blank
				}
				if prev != "" && an < prev {
					return fmt.Errorf("attributes of <%s> not in ascending order: %s after %s", name, an, prev)
				}
				prev = an
			}
			if len(stack) > 0 {
				if last := stack[len(stack)-1]; last != "" && name < last {
					return fmt.Errorf("child <%s> after <%s>: not in ascending key order", name, last)
				}
				stack[len(stack)-1] = name
			}
			stack = append(stack, "")
		case strings.HasPrefix(t, "E:"):
			if len(stack) > 0 {
				stack = stack[:len(stack)-1]
			}
		}
	}
	return nil
}

// stripIndent compares an indented encoding with the compact one: same token stream up to
// whitespace-only character data; text of a text-only element exact, other text trimmed.
func sameModuloIndent(compact, indented []byte) (bool, string) {
	a, e1 := rawTokens(compact, true, false)
	b, e2 := rawTokens(indented, true, false)
	if e1 != nil || e2 != nil {
		return false, fmt.Sprintf("tokenizer: %v %v", e1, e2)
	}
	norm := func(ts []string) []string {
		out := append([]string(nil), ts...)
		for i, g := range out {
			if strings.HasPrefix(g, "T:") {
				alone := i > 0 && strings.HasPrefix(out[i-1], "S:") && i+1 < len(out) && strings.HasPrefix(out[i+1], "E:")
				if !alone {
					out[i] = "T:" + strings.Trim(g[2:], "\t\r\b\n ")
				}
			}
		}
		return out
	}
	na, nb := norm(a), norm(b)
	if !eqStrings(na, nb) {
		return false, fmt.Sprintf("compact=%v indented=%v", na, nb)
	}
	// inter-element white space only: the markup itself (every tag, comment, instruction, byte for byte) is the same
	if ta, tb := markupSpans(compact), markupSpans(indented); !eqStrings(ta, tb) {
		return false, fmt.Sprintf("the markup differs inside a tag: compact=%q indented=%q", ta, tb)
	}
	return true, ""
}

// markupSpans returns the raw text of every tag, comment, CDATA section, instruction and directive, in order.
func markupSpans(b []byte) []string {
	var out []string
	for i := 0; i < len(b); {
		if b[i] != '<' {
			i++
			continue
		}
		rest := b[i:]
		end := -1
		switch {
		case bytes.HasPrefix(rest, []byte("<!--")):
			if j := bytes.Index(rest, []byte("-->")); j >= 0 {
				end = j + 3
			}
		case bytes.HasPrefix(rest, []byte("<![CDATA[")):
			if j := bytes.Index(rest, []byte("]]>")); j >= 0 {
				end = j + 3
			}
		case bytes.HasPrefix(rest, []byte("<?")):
			if j := bytes.Index(rest, []byte("?>")); j >= 0 {
				end = j + 2
			}
		default:
			var q byte
			for j := 1; j < len(rest); j++ {
				ch := rest[j]
				if q != 0 {
					if ch == q {
						q = 0
					}
				} else if ch == '"' || ch == '\'' {
					q = ch
				} else if ch == '>' {
					end = j + 1
					break
				}
			}
		}
		if end < 0 {
			out = append(out, string(rest))
			break
		}
		out = append(out, string(rest[:end]))
		i += end
	}
	return out
}

// c16Explore runs every encoder of the source under all explored map orders and checks all clauses.
func c16Explore(c *Ctx, src c16Source, bound int, echoice bool) (nontrivial bool) {
	shape := src.kind
	violated := false
	viol := func(api, clause, detail string) {
		violated = true
		c.Violate(api, clause, shape, func() interface{} { return src.cas() }, nil, detail)
	}
	encs := c16Encoders(c, src, viol)
	base := map[string][]byte{}
	for _, e := range encs {
		e := e
		run := func(first bool, choices []int) {
			var out []byte
			var err error
			st, pan := protect(func() { out, err = e.f() })
			c.S.Transitions++
			c.S.Validated++
			c.S.Schedules++
			if pan {
				viol(e.name, "panic", st)
				return
			}
			if err != nil {
				viol(e.name, "error", err.Error())
				return
			}
			if first {
				// kept across the following sources: a later call that overwrites these bytes is detected
				c.Retain(e.name, out, func() interface{} { return src.cas() })
			}
			if first {
				base[e.name] = append([]byte(nil), out...)
				c.Outcome(e.name + "|" + string(out))
				return
			}
			if !bytes.Equal(base[e.name], out) {
				violated = true
				k := src.cas()
				k.Enc = e.name
				c.Violate(e.name, "deterministic", shape, k, choices, fmt.Sprintf("source=%s\n first  =%q\n another map order (policy %d, choices %v) or repeated call =%q", c16Desc(src), base[e.name], rt.OrderPolicy, choices, out))
			}
		}
		rt.OrderPolicy = rt.PolicySorted
		run(true, nil)
		run(false, nil) // repeated call
		rt.OrderPolicy = rt.PolicyReverse
		run(false, nil)
		if echoice && !violated && !strings.Contains(e.name, "Json") && !strings.Contains(e.name, "File") {
			rt.OrderPolicy = rt.PolicyChoose
			ex := &Explorer{Bound: bound, MaxExecs: 4000, Run: func() { run(false, curExec.prefix) }, Check: func(x *Exec) bool { return !violated }}
			ex.Explore()
			if ex.CapHit {
				c.Cap("E-choice executions per encoder capped at 4000")
				c.S.Exhaustive = false
			}
			if ex.Diverged != "" {
				c.Broken("C16: %s", ex.Diverged)
			}
			if bound > c.S.BoundCompleted {
				c.S.BoundCompleted = bound
			}
		}
		rt.OrderPolicy = rt.PolicySorted
	}
	if violated {
		return true
	}
	get := func(n string) []byte { return base[n] }
	// Writer forms write exactly the bytes the byte-returning forms return
	pairs := [][2]string{{"Map.XmlWriter", "Map.Xml"}, {"Map.JsonWriter", "Map.Json"}, {"Map.JsonWriter(safe)", "Map.Json(safe)"},
		{"Map.JsonWriterRaw", "Map.Json"}, {"Map.JsonWriterRaw(safe)", "Map.Json(safe)"}, {"MapSeq.XmlWriter", "MapSeq.Xml"},
		{"Maps.XmlFile", "Maps.XmlString"}, {"Maps.JsonFile", "Maps.JsonString"}, {"Maps.JsonFile(safe)", "Maps.JsonString(safe)"}}
	for n := range base {
		if i := strings.Index(n, "IndentWriter("); i >= 0 {
			pairs = append(pairs, [2]string{n, n[:i] + "Indent(" + n[i+len("IndentWriter("):]})
		}
		if i := strings.Index(n, "FileIndent("); i >= 0 {
			pairs = append(pairs, [2]string{n, n[:i] + "StringIndent(" + n[i+len("FileIndent("):]})
		}
		if i := strings.Index(n, "FileIndent(safe)("); i >= 0 {
			pairs = append(pairs, [2]string{n, n[:i] + "StringIndent(safe)(" + n[i+len("FileIndent(safe)("):]})
		}
	}
	for _, p := range pairs {
		a, okA := base[p[0]]
		b, okB := base[p[1]]
		if okA && okB && !bytes.Equal(a, b) {
			viol(p[0], "writer-equals-bytes", fmt.Sprintf("source=%s\n %s wrote %q\n %s returned %q", c16Desc(src), p[0], a, p[1], b))
		}
	}
	switch src.kind {
	case "map":
		if err := sortedTokens(get("Map.Xml")); err != nil {
			viol("Map.Xml", "ascending-key-order", fmt.Sprintf("%v in %q", err, get("Map.Xml")))
		}
		for n, b := range base {
			if strings.HasPrefix(n, "Map.XmlIndent(") {
				if ok, why := sameModuloIndent(get("Map.Xml"), b); !ok {
					viol(n, "indent-only-whitespace", fmt.Sprintf("source=%s compact=%q indented=%q: %s", c16Desc(src), get("Map.Xml"), b, why))
				}
			}
			if strings.HasPrefix(n, "Map.JsonIndent(") {
				var x, y bytes.Buffer
				if json.Compact(&x, b) != nil || json.Compact(&y, get("Map.Json")) != nil || !bytes.Equal(x.Bytes(), y.Bytes()) {
					viol(n, "indent-only-whitespace", fmt.Sprintf("compact=%q indented=%q", get("Map.Json"), b))
				}
			}
		}
	case "mapseq":
		// sequence order: the compact encoding has the element / attribute order of the source document
		if st, e1 := rawTokens([]byte(src.xml), true, true); e1 == nil {
			if ot, e2 := rawTokens(get("MapSeq.Xml"), true, true); e2 != nil || !eqStrings(tokensNamesOnly(st), tokensNamesOnly(ot)) {
				viol("MapSeq.Xml", "sequence-order", fmt.Sprintf("source=%q output=%q: element / attribute order differs from the document (%v)", src.xml, get("MapSeq.Xml"), e2))
			}
		}
		for n, b := range base {
			if strings.HasPrefix(n, "MapSeq.XmlIndent(") {
				if ok, why := sameModuloIndent(get("MapSeq.Xml"), b); !ok {
					viol(n, "indent-only-whitespace", fmt.Sprintf("source=%s compact=%q indented=%q: %s", c16Desc(src), get("MapSeq.Xml"), b, why))
				}
			}
		}
	case "maps":
		// string forms are the concatenation of the per-Map encodings
		var xs, js, jss bytes.Buffer
		var maps []mxj.Map
		for _, x := range src.list {
			m, _ := mxj.NewMapXml([]byte(x))
			maps = append(maps, m)
			a, _ := m.Xml()
			b, _ := m.Json()
			d, _ := m.Json(true)
			xs.Write(a)
			js.Write(b)
			jss.Write(d)
		}
		cmp := func(name string, want []byte) {
			if got, ok := base[name]; ok && !bytes.Equal(got, want) {
				viol(name, "concatenation", fmt.Sprintf("maps=%q\n %s=%q\n concatenation of the per-Map encodings=%q", src.list, name, got, want))
			}
		}
		cmp("Maps.XmlString", xs.Bytes())
		cmp("Maps.JsonString", js.Bytes())
		cmp("Maps.JsonString(safe)", jss.Bytes())
		for n, got := range base {
			if strings.HasPrefix(n, "Maps.XmlStringIndent(") || strings.HasPrefix(n, "Maps.JsonStringIndent") {
				var in [2]string
				fmt.Sscanf(n[strings.LastIndex(n, "("):], "(%q,%q)", &in[0], &in[1])
				var want bytes.Buffer
				for i, m := range maps {
					var b []byte
					switch {
					case strings.HasPrefix(n, "Maps.XmlStringIndent"):
						b, _ = m.XmlIndent(in[0], in[1])
					case strings.Contains(n, "(safe)"):
						b, _ = m.JsonIndent(in[0], in[1], true)
					default:
						b, _ = m.JsonIndent(in[0], in[1])
					}
					if i > 0 && strings.HasPrefix(n, "Maps.Json") {
						want.WriteString("\n") // up to inter-document white space
					}
					want.Write(b)
				}
				strip := func(b []byte) string { return strings.Join(strings.Fields(string(b)), "") }
				if strings.HasPrefix(n, "Maps.Json") {
					if strip(got) != strip(want.Bytes()) {
						viol(n, "concatenation", fmt.Sprintf("maps=%q\n got=%q\n want=%q", src.list, got, want.Bytes()))
					}
				} else if !bytes.Equal(got, want.Bytes()) {
					viol(n, "concatenation", fmt.Sprintf("maps=%q\n got=%q\n want=%q", src.list, got, want.Bytes()))
				}
			}
		}
	}
	return true
}

func c16Desc(s c16Source) string {
	switch {
	case s.js != "":
		return s.js
	case s.xml != "":
		return s.xml
	}
	return strings.Join(s.list, " | ")
}

// c16Sinks: Writer forms return the sink's error.
func c16Sinks(c *Ctx, xmlDoc string) {
	m, err := mxj.NewMapXml([]byte(xmlDoc))
	ms, err2 := mxj.NewMapXmlSeq([]byte(xmlDoc))
	if err != nil || err2 != nil {
		return
	}
	cas := func() interface{} { return c16Case{Kind: "sinks", Xml: xmlDoc} }
	type wf struct {
		name string
		f    func(w interface {
			Write([]byte) (int, error)
		}) error
	}
	wfs := []wf{
		{"Map.XmlWriter", func(w interface{ Write([]byte) (int, error) }) error { return m.XmlWriter(w) }},
		{"Map.XmlIndentWriter", func(w interface{ Write([]byte) (int, error) }) error { return m.XmlIndentWriter(w, "", " ") }},
		{"Map.JsonWriter", func(w interface{ Write([]byte) (int, error) }) error { return m.JsonWriter(w) }},
		{"Map.JsonIndentWriter", func(w interface{ Write([]byte) (int, error) }) error { return m.JsonIndentWriter(w, "", " ") }},
		{"Map.JsonWriterRaw", func(w interface{ Write([]byte) (int, error) }) error { _, e := m.JsonWriterRaw(w); return e }},
		{"Map.JsonIndentWriterRaw", func(w interface{ Write([]byte) (int, error) }) error {
			_, e := m.JsonIndentWriterRaw(w, "", " ")
			return e
		}},
		{"MapSeq.XmlWriter", func(w interface{ Write([]byte) (int, error) }) error { return ms.XmlWriter(w) }},
		{"MapSeq.XmlIndentWriter", func(w interface{ Write([]byte) (int, error) }) error { return ms.XmlIndentWriter(w, "", " ") }},
	}
	for _, w := range wfs {
		for _, sink := range []string{"fail", "short"} {
			var e error
			st, pan := protect(func() {
				if sink == "fail" {
					e = w.f(failWriter{})
				} else {
					e = w.f(&shortWriter{})
				}
			})
			c.S.Transitions++
			if pan {
				c.Violate(w.name, "panic", "sinks", cas, nil, st)
			} else if e != errSink {
				c.Violate(w.name, "sink-error-returned", "sinks", cas, nil, fmt.Sprintf("doc=%q sink=%s: returned %v instead of the sink's error", xmlDoc, sink, e))
			}
		}
		// a sink that fails after every possible number of accepted bytes: the error is returned, what
		// reached the sink is exactly that prefix of the full output, nothing is written after the failure
		var full bytes.Buffer
		if w.f(&full) != nil {
			continue
		}
		for k := 0; k < full.Len(); k++ {
			q := &quotaWriter{quota: k}
			var e error
			st, pan := protect(func() { e = w.f(q) })
			c.S.Transitions++
			c.S.Schedules++
			if pan {
				c.Violate(w.name, "panic", "sinks", cas, nil, st)
				break
			}
			if e != errSink {
				c.Violate(w.name, "sink-error-returned", "sinks", cas, nil, fmt.Sprintf("doc=%q sink fails after %d bytes: returned %v instead of the sink's error", xmlDoc, k, e))
				break
			}
			if q.after > 0 || !bytes.Equal(q.buf.Bytes(), full.Bytes()[:k]) {
				c.Violate(w.name, "partial-write-is-a-prefix", "sinks", cas, nil, fmt.Sprintf("doc=%q sink fails after %d bytes: %d Write calls after the failure; sink holds %q, full output %q", xmlDoc, k, q.after, q.buf.Bytes(), full.Bytes()))
				break
			}
		}
	}
}

// c16RawOnFailingSink: the Raw forms return the bytes the byte-returning forms return - whatever the sink did.
func c16RawOnFailingSink(c *Ctx, xmlDoc string) {
	m, err := mxj.NewMapXml([]byte(xmlDoc))
	if err != nil {
		return
	}
	cas := func() interface{} { return c16Case{Kind: "sinks", Xml: xmlDoc} }
	for _, indent := range []bool{false, true} {
		name := "Map.JsonWriterRaw"
		var full []byte
		if indent {
			name = "Map.JsonIndentWriterRaw"
			full, err = m.JsonIndent("", " ")
		} else {
			full, err = m.Json()
		}
		if err != nil {
			continue
		}
		for k := 0; k <= len(full); k++ {
			q := &quotaWriter{quota: k}
			var raw []byte
			st, pan := protect(func() {
				if indent {
					raw, _ = m.JsonIndentWriterRaw(q, "", " ")
				} else {
					raw, _ = m.JsonWriterRaw(q)
				}
			})
			c.S.Transitions++
			c.S.Schedules++
			if pan {
				c.Violate(name, "panic", "sinks", cas, nil, st)
				break
			}
			if !bytes.Equal(raw, full) {
				c.Violate(name, "raw-equals-bytes", "sinks", cas, nil, fmt.Sprintf("doc=%q sink accepts %d of %d bytes: the Raw form returned %q, the byte-returning form returns %q", xmlDoc, k, len(full), raw, full))
				break
			}
		}
	}
}

// c16FullDevice: the four file forms on a device that accepts no byte (/dev/full, where the system has one): a
// write that failed is an error of the call, like the sink errors of the Writer forms.
func c16FullDevice(c *Ctx, xmlDoc string) {
	if _, err := os.Stat("/dev/full"); err != nil {
		c.Count("full_device_cases_skipped_no_dev_full", 1)
		return
	}
	m, err := mxj.NewMapXml([]byte(xmlDoc))
	if err != nil {
		return
	}
	cas := func() interface{} { return c16Case{Kind: "sinks", Xml: xmlDoc} }
	ms := mxj.Maps{m, m}
	forms := map[string]func() error{
		"Maps.XmlFile":        func() error { return ms.XmlFile("/dev/full") },
		"Maps.XmlFileIndent":  func() error { return ms.XmlFileIndent("/dev/full", "", " ") },
		"Maps.JsonFile":       func() error { return ms.JsonFile("/dev/full") },
		"Maps.JsonFileIndent": func() error { return ms.JsonFileIndent("/dev/full", "", " ") },
	}
	for _, name := range []string{"Maps.XmlFile", "Maps.XmlFileIndent", "Maps.JsonFile", "Maps.JsonFileIndent"} {
		var werr error
		st, pan := protect(func() { werr = forms[name]() })
		c.S.Transitions++
		c.S.Schedules++
		if pan {
			c.Violate(name, "panic", "sinks", cas, nil, st)
			continue
		}
		if werr == nil {
			c.Violate(name, "sink-error-returned", "sinks", cas, nil, fmt.Sprintf("doc=%q written to /dev/full (every write fails with ENOSPC): the call returned a nil error", xmlDoc))
		}
	}
}

func c16Run(c *Ctx) {
	mustBeDefault(c)
	mxj.XMLEscapeChars(true)
	c.S.Rule = "(the XML documents of up to 45 bytes again under XmlGoEmptyElemSyntax, sorted order) cases = source value x every encoder entry point: Maps decoded from the U-XML documents (<= N elements, <= 1-2 decorations) and JSON-shaped Maps (<= M nodes, keys {a,b,-x,#text}), MapSeqs decoded from the same documents, Maps whose keys differ only in case, by a prefix or by a number read lexically, Maps rooted at a special key, the nil Map and the empty Map, and lists of 1..3 Maps; entry points Xml, XmlIndent, XmlWriter, XmlIndentWriter (Map and MapSeq), Json, JsonIndent, JsonWriter[Raw], JsonIndentWriter[Raw] (default and safe), StringIndent, Maps.XmlString[Indent], Maps.JsonString[Indent], the four ...File writers; indent/prefix pairs over blanks; sinks accept-all, fail-at-once, short-write, and fail-after-k-bytes for every k (then accepting again). Each entry point is executed under ascending and descending map-iteration order, twice in a row, and under every sequence of <= B deviations from the sorted order at every range-over-map inside the encoder (E-choice). Oracle: byte-identical output in all executions; attributes and child elements ascending; indented = compact up to whitespace-only character data; Writer/Raw/File forms = byte forms; sink errors returned, what reached a failing sink is exactly a prefix of the full output and nothing is written after the failure, and the Raw forms still return the whole encoding; Maps forms = concatenation. non-trivial = source encoded by every entry point."
	c.S.Assumptions = []string{"gob output is excluded from the determinism clause (encoding/gob encodes maps in iteration order by design; the property names XML and JSON)", "runtime hash order is replaced by the owned order; a free-running pass on the uninstrumented build is supplementary"}
	n1, nj, b := 3, 4, 2
	if c.Thorough {
		n1, nj, b = 4, 5, 4
	}
	var docs []string
	for n := 1; n <= n1; n++ {
		for _, base := range baseTrees(n, "r", []string{"a", "b"}, 3) {
			docs = append(docs, renderDoc(base, rvDefault))
			ds := c02Decos(base, false)
			for _, d := range ds {
				if doc, ok := applyDecos(base, []Deco{d}); ok && !c01OutOfUniverse(doc) {
					docs = append(docs, renderDoc(doc, rvDefault))
				}
			}
			if n <= 2 {
				for i := range ds {
					for j := i + 1; j < len(ds); j++ {
						if ds[i].Kind == 'a' && ds[j].Kind == 'a' || ds[i].Kind == 'a' && ds[j].Kind == 't' {
							if doc, ok := applyDecos(base, []Deco{ds[i], ds[j]}); ok && !c01OutOfUniverse(doc) {
								docs = append(docs, renderDoc(doc, rvDefault))
							}
						}
					}
				}
			}
		}
	}
	if c.Shard == 0 {
		c.Count("xml_documents", int64(len(docs)))
	}
	for i, d := range docs {
		if !c.Mine() {
			continue
		}
		c.S.States += 2
		c.S.Evaluations += 2
		small := len(d) < 60
		if c16Explore(c, c16Source{kind: "map", xml: d}, b, small) {
			c.S.Nontrivial++
			c.Sample(map[string]interface{}{"kind": "map", "xml": d})
		}
		// MapSeq: documents whose text (if any) comes first
		if tree, err := parseXElem([]byte(d)); err == nil && c04InDomain(tree) {
			if c16Explore(c, c16Source{kind: "mapseq", xml: d}, b, small) {
				c.S.Nontrivial++
			}
		}
		if i%7 == 0 {
			c16Sinks(c, d)
			c16RawOnFailingSink(c, d)
			c16FullDevice(c, d)
		}
	}
	// the variants agree under the other empty-element syntax as well (documents of <= 3 elements, order deviation bound 0)
	mxj.XmlGoEmptyElemSyntax()
	c16GoEmpty = true
	for _, d := range docs {
		if len(d) > 45 || !c.Mine() {
			continue
		}
		c.S.States++
		c.S.Evaluations++
		c16Explore(c, c16Source{kind: "map", xml: d}, 0, false)
		if tree, err := parseXElem([]byte(d)); err == nil && c04InDomain(tree) {
			c16Explore(c, c16Source{kind: "mapseq", xml: d}, 0, false)
		}
	}
	mxj.XmlDefaultEmptyElemSyntax()
	c16GoEmpty = false
	g := newGen(GenP{Keys: []string{"a", "b", "-x", "#text"}, MaxList: 3, MaxKeys: 3, EmptyList: true, EmptyMap: true, ListInList: false, Leaves: []interface{}{"s", "<&>", 1.5, nullLeaf{}}})
	g.rootMaps(nj, func(t *T) {
		probe := inst(t, nil)
		if !c03InDomain(probe, true) || c03HasNullAttr(probe) { // (a null attribute entry may be refused by the encoders, see C03)
			return
		}
		if pm := probe.(map[string]interface{}); len(pm) == 1 {
			for _, v := range pm {
				if _, isList := v.([]interface{}); isList {
					return // a single-key root whose value is a list is outside the C03 domain
				}
			}
		}
		if !c.Mine() {
			return
		}
		c.S.States++
		c.S.Evaluations++
		if c16Explore(c, c16Source{kind: "map", js: jsonOf(probe)}, b, countNodes(t) <= 4) {
			c.S.Nontrivial++
		}
	})
	// roots keyed by a special key (a lone "#text" or attribute key, or one beside an ordinary key): what the
	// encoders emit for them is not XML, but the variants must still agree with one another
	for _, js := range []string{`{"#text":"s"}`, `{"-x":"s"}`, `{"#text":{"-x":"1","b":"c"}}`, `{"#text":"s","a":"t"}`, `{"-x":"1","a":"t"}`, `{"#text":["s","t"]}`, `{"#text":1.5}`} {
		if !c.Mine() {
			continue
		}
		c.S.States++
		c.S.Evaluations++
		c16OddRoot(c, js)
	}
	// MapSeqs with more than ten sequenced members / attributes in one element (sequence numbers of two digits)
	for _, d := range []string{
		`<r><a>0</a><b>1</b><a>2</a><a>3</a><b>4</b><c>5</c><a>6</a><b>7</b><a>8</a><a>9</a><b>10</b><a>11</a><c>12</c></r>`,
		`<r z="0" y="1" x="2" w="3" v="4" u="5" t="6" s="7" q="8" p="9" o="10" n="11"><a/></r>`,
	} {
		if !c.Mine() {
			continue
		}
		c.S.States++
		c.S.Evaluations++
		c16Explore(c, c16Source{kind: "mapseq", xml: d}, 1, false)
		c16Explore(c, c16Source{kind: "mapseq", xml: d, via: "json"}, 1, false)
		c16Explore(c, c16Source{kind: "mapseq", xml: d, via: "json-number"}, 1, false)
		c.S.States += 2
	}
	// ... and decoded with the cast flag first: numbers in attribute and element values come back as json.Number / float64
	for _, d := range []string{`<a x="1" y="s"><b z="2.5">3</b><c>true</c></a>`} {
		for _, via := range []string{"json-cast", "json-number-cast"} {
			if !c.Mine() {
				continue
			}
			c.S.States++
			c.S.Evaluations++
			c16Explore(c, c16Source{kind: "mapseq", xml: d, via: via}, 1, false)
		}
	}
	// keys that differ only in case, by a prefix, or by a number read lexically (ascending byte order is the
	// documented order for attributes and child elements)
	for _, js := range []string{
		`{"r":{"a":"1","A":"2","ab":"3","a1":"4","a10":"5","a2":"6","B":"7","-x":"1","-X":"2","-x1":"3","-x10":"4","-x2":"5"}}`,
		`{"r":{"b":{"a2":"1","a10":"2","a1":"3"},"a":[{"-k2":"1","-k10":"2","Z":"3","z":"4"},{"Z":"5"}],"B":"x"}}`,
	} {
		if !c.Mine() {
			continue
		}
		c.S.States++
		c.S.Evaluations++
		c16Explore(c, c16Source{kind: "map", js: js}, 1, false)
	}
	// the nil Map and the Map with zero entries
	for _, js := range []string{"null", "{}"} {
		if !c.Mine() {
			continue
		}
		c.S.States++
		c.S.Evaluations++
		c16Explore(c, c16Source{kind: "map", js: js}, 1, false)
	}
	// lists of Maps
	pick := []string{`<a/>`, `<a x="1">t</a>`, `<r><b>&lt;1&gt;</b><a/></r>`, `<r><a>1</a><a>2</a></r>`}
	var lists [][]string
	for _, x := range pick {
		lists = append(lists, []string{x})
		for _, y := range pick {
			lists = append(lists, []string{x, y})
			lists = append(lists, []string{x, y, pick[2]})
		}
	}
	for _, l := range lists {
		if !c.Mine() {
			continue
		}
		c.S.States++
		c.S.Evaluations++
		if c16Explore(c, c16Source{kind: "maps", list: l}, 1, false) {
			c.S.Nontrivial++
		}
	}
	rt.OrderPolicy = rt.PolicySorted
	resetOptions()
}

// c16OddRoot: variants agree on a Map whose root key is a special key (no well-formedness is claimed).
func c16OddRoot(c *Ctx, js string) {
	cas := func() interface{} { return c16Case{Kind: "odd-root", Json: json.RawMessage(js), Pol: rt.OrderPolicy} }
	build := func() mxj.Map { return mxj.Map(fromJSON(js).(map[string]interface{})) }
	strip := func(b []byte) string {
		return strings.Map(func(r rune) rune {
			if r == ' ' || r == '\n' || r == '\t' {
				return -1
			}
			return r
		}, string(b))
	}
	var x, x2, xi, xw, xiw []byte
	var e1, e2, e3, e4, e5 error
	st, pan := protect(func() {
		x, e1 = build().Xml()
		x2, e2 = build().Xml()
		xi, e3 = build().XmlIndent("", "  ")
		var b1, b2 bytes.Buffer
		e4 = build().XmlWriter(&b1)
		e5 = build().XmlIndentWriter(&b2, "", "  ")
		xw, xiw = b1.Bytes(), b2.Bytes()
	})
	c.S.Transitions += 5
	c.S.Validated++
	if pan {
		c.Violate("Map.Xml", "panic", "odd-root", cas, nil, st)
		return
	}
	errs := fmt.Sprint(e1 != nil, e2 != nil, e3 != nil, e4 != nil, e5 != nil)
	if errs != "false false false false false" && errs != "true true true true true" {
		c.Violate("Map.Xml", "variants-agree", "odd-root", cas, nil, fmt.Sprintf("map=%s: error-ness differs between Xml, Xml, XmlIndent, XmlWriter, XmlIndentWriter: %s", js, errs))
		return
	}
	if e1 != nil {
		return
	}
	if !bytes.Equal(x, x2) || !bytes.Equal(x, xw) || !bytes.Equal(xi, xiw) || strip(x) != strip(xi) {
		c.Violate("Map.Xml", "variants-agree", "odd-root", cas, nil, fmt.Sprintf("map=%s\n Xml            =%q\n Xml again      =%q\n XmlWriter      =%q\n XmlIndent      =%q\n XmlIndentWriter=%q", js, x, x2, xw, xi, xiw))
	}
}

// tokensNamesOnly keeps start tags (with their attribute names in order) and end tags of a token list.
func tokensNamesOnly(toks []string) []string {
	var out []string
	for _, t := range toks {
		if strings.HasPrefix(t, "S:") {
			parts := strings.Split(t[2:], " ")
			o := "S:" + parts[0]
			for _, a := range parts[1:] {
				if i := strings.Index(a, "="); i > 0 {
					o += " " + a[:i]
				}
			}
			out = append(out, o)
		} else if strings.HasPrefix(t, "E:") {
			out = append(out, t)
		}
	}
	return out
}
