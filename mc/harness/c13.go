package main

import (
	"bytes"
	"encoding/json"
	"fmt"
	"io"
	"strconv"
	"strings"

	mxj "github.com/clbanning/mxj/v2"
	x2jw "github.com/clbanning/mxj/v2/x2j-wrapper"
	rt "github.com/clbanning/mxj/v2/zzverifrt"
)

// C13 — Stream decoding is independent of how the reader delivers bytes.

type c13Case struct {
	Docs   []string `json:"docs"`
	Sep    string   `json:"separator"`
	Trail  string   `json:"trailing"`
	Fn     string   `json:"function"`
	ByteRd bool     `json:"byte_reader"`
	StopAt int      `json:"handler_returns_false_at,omitempty"`          // 1-based; 0 = never
	Stalls int      `json:"empty_reads_before_every_delivery,omitempty"` // patterned schedule: (0,nil) this many times before each delivery
	Chunk  int      `json:"bytes_per_read,omitempty"`                    // patterned schedule: at most this many bytes per Read
	Big    int      `json:"big_document_bytes,omitempty"`                // Docs[0] is replaced by a generated document of about this size
	UseNum bool     `json:"json_use_number,omitempty"`                   // JsonUseNumber is on (the direct decodes run under the same setting)
	Latin1 bool     `json:"latin1_charset_reader,omitempty"`             // XmlCharsetReader is set to a Latin-1 reader (documents declare encoding="ISO-8859-1")
}

// latin1Reader is a CharsetReader for ISO-8859-1: it asks its source for as many bytes as fit into the
// caller's buffer after conversion (as golang.org/x/text's transform.Reader does).
type latin1Reader struct {
	src io.Reader
	tmp []byte
}

func (l *latin1Reader) Read(p []byte) (int, error) {
	if len(p) < 2 {
		return 0, io.ErrShortBuffer
	}
	if cap(l.tmp) < len(p)/2 {
		l.tmp = make([]byte, len(p)/2)
	}
	n, err := l.src.Read(l.tmp[:len(p)/2])
	o := 0
	for _, b := range l.tmp[:n] {
		if b < 0x80 {
			p[o] = b
			o++
		} else {
			p[o], p[o+1] = 0xC0|b>>6, 0x80|b&0x3F
			o += 2
		}
	}
	return o, err
}

func init() {
	register(&Property{ID: "C13", Run: c13Run, Replay: func(c *Ctx, cas json.RawMessage, ch []int) {
		var k c13Case
		json.Unmarshal(cas, &k)
		resetOptions()
		x := runWith(ch, func() { c13Exec(c, k, ch) })
		_ = x
		resetOptions()
	}})
}

// scriptReader: every Read is a choice point.
type scriptReader struct {
	data     []byte
	pos      int
	calls    int
	empties  int
	maxAsk   int
	horizon  int
	overHorz bool
	stalls   int // patterned schedule: this many (0,nil) answers before every delivery (no choice points)
	stalled  int
	chunk    int // patterned schedule: at most this many bytes per Read
}

func (r *scriptReader) Read(p []byte) (int, error) {
	r.calls++
	if r.calls > r.horizon {
		r.overHorz = true
		return 0, io.EOF // give up: reported as non-termination by the check
	}
	if len(p) > r.maxAsk {
		r.maxAsk = len(p)
	}
	if len(p) == 0 {
		return 0, nil
	}
	if r.stalls > 0 {
		if r.stalled < r.stalls {
			r.stalled++
			return 0, nil
		}
		r.stalled = 0
		r.empties = 2 // no further empty reads from choices: the run stays below the 100 a reader may legally deliver in a row
	}
	rem := len(r.data) - r.pos
	// options, default first
	type opt struct {
		n    int
		eof  bool
		nil0 bool
	}
	var opts []opt
	if rem == 0 {
		opts = append(opts, opt{0, true, false})
	} else {
		n := len(p)
		if n > rem {
			n = rem
		}
		if r.chunk > 0 && n > r.chunk {
			n = r.chunk
		}
		opts = append(opts, opt{n, false, false})
		if n > 1 {
			opts = append(opts, opt{1, false, false}) // short read
		}
		if rem <= len(p) {
			opts = append(opts, opt{rem, true, false}) // final data delivered together with io.EOF
		}
	}
	if r.empties < 2 {
		opts = append(opts, opt{0, false, true}) // (0, nil)
	}
	o := opts[rt.Choose(rt.KindRead, len(opts))]
	if o.nil0 {
		r.empties++
		return 0, nil
	}
	r.empties = 0
	copy(p, r.data[r.pos:r.pos+o.n])
	r.pos += o.n
	if o.eof {
		return o.n, io.EOF
	}
	return o.n, nil
}

// scriptByteReader also implements io.ByteReader (no legal deviations for ReadByte).
type scriptByteReader struct{ scriptReader }

func (r *scriptByteReader) ReadByte() (byte, error) {
	r.calls++
	if r.pos >= len(r.data) {
		return 0, io.EOF
	}
	b := r.data[r.pos]
	r.pos++
	return b, nil
}

// c13Exec runs one execution (under the current chooser) and checks it.
// c13BigDoc: a well-formed document of about n bytes in the family of the given one (XML or JSON).
func c13BigDoc(json bool, n int) string {
	var sb strings.Builder
	if json {
		sb.WriteString(`{"big":[`)
		for i := 0; sb.Len() < n; i++ {
			if i > 0 {
				sb.WriteString(",")
			}
			sb.WriteString(`{"i":` + strconv.Itoa(i) + `,"s":"} \\ \" {"}`)
		}
		sb.WriteString(`]}`)
		return sb.String()
	}
	sb.WriteString(`<big n="1">`)
	for i := 0; sb.Len() < n; i++ {
		sb.WriteString(`<i k="` + strconv.Itoa(i) + `">v &amp; ` + strconv.Itoa(i) + `</i>`)
	}
	sb.WriteString(`</big>`)
	return sb.String()
}

func c13Exec(c *Ctx, k c13Case, choices []int) {
	if k.Big > 0 {
		k.Docs = append([]string{c13BigDoc(strings.Contains(k.Fn, "Json"), k.Big)}, k.Docs[1:]...)
	}
	stream := strings.Join(k.Docs, k.Sep) + k.Trail
	if k.UseNum {
		mxj.JsonUseNumber = true
		defer func() { mxj.JsonUseNumber = false }()
	}
	if k.Latin1 {
		mxj.XmlCharsetReader = func(cs string, in io.Reader) (io.Reader, error) { return &latin1Reader{src: in}, nil }
		defer func() { mxj.XmlCharsetReader = nil }()
	}
	// document boundaries in the stream
	var starts, ends []int
	off := 0
	for i, d := range k.Docs {
		starts = append(starts, off)
		off += len(d)
		ends = append(ends, off)
		if i < len(k.Docs)-1 {
			off += len(k.Sep)
		}
	}
	sr := &scriptReader{data: []byte(stream), horizon: (6*len(stream) + 60) * (k.Stalls + 1), stalls: k.Stalls, chunk: k.Chunk}
	var rdr io.Reader = sr
	var sbr *scriptByteReader
	if k.ByteRd {
		sbr = &scriptByteReader{scriptReader{data: []byte(stream), horizon: 6*len(stream) + 60}}
		rdr = sbr
		sr = &sbr.scriptReader
	}
	isJSON := strings.Contains(k.Fn, "Json")
	isSeq := strings.Contains(k.Fn, "Seq")
	expect := func(i int) interface{} {
		switch {
		case isJSON:
			m, _ := mxj.NewMapJson([]byte(k.Docs[i]))
			return map[string]interface{}(m)
		case isSeq:
			m, _ := mxj.NewMapXmlSeq([]byte(k.Docs[i]))
			return map[string]interface{}(m)
		default:
			m, _ := mxj.NewMapXml([]byte(k.Docs[i]))
			return map[string]interface{}(m)
		}
	}
	shape := fmt.Sprintf("docs=%d", len(k.Docs))
	dev := 0
	for _, x := range choices {
		if x != 0 {
			dev++
		}
	}
	viol := func(clause, detail string) {
		sh := shape
		if dev == 0 {
			sh += ",default-delivery"
		}
		c.Violate(k.Fn, clause, sh, k, append([]int(nil), choices...), fmt.Sprintf("stream=%q reader=%s choices=%v\n %s", stream, map[bool]string{true: "io.ByteReader", false: "plain io.Reader"}[k.ByteRd], choices, detail))
	}
	type res struct {
		m      map[string]interface{}
		raw    []byte
		err    error
		offset int
	}
	var results []res
	var handled []map[string]interface{}
	var handledRaw [][]byte
	var handledRawLive [][]byte // the very slices the handler was given, kept without copying
	var herr error
	st, pan := protect(func() {
		switch k.Fn {
		case "HandleXmlReader", "HandleJsonReader", "HandleXmlReaderRaw", "HandleJsonReaderRaw", "x2j-wrapper.XmlMsgsFromReader":
			n := 0
			mh := func(m mxj.Map) bool {
				n++
				handled = append(handled, m)
				return k.StopAt == 0 || n < k.StopAt
			}
			mhr := func(m mxj.Map, raw []byte) bool {
				handledRaw = append(handledRaw, append([]byte(nil), raw...))
				handledRawLive = append(handledRawLive, raw)
				return mh(m)
			}
			eh := func(e error) bool { herr = e; return false }
			ehr := func(e error, raw []byte) bool { herr = e; return false }
			switch k.Fn {
			case "HandleXmlReader":
				herr2 := mxj.HandleXmlReader(rdr, mh, eh)
				if herr == nil {
					herr = herr2
				}
			case "HandleXmlReaderRaw":
				herr2 := mxj.HandleXmlReaderRaw(rdr, mhr, ehr)
				if herr == nil {
					herr = herr2
				}
			case "HandleJsonReader":
				herr2 := mxj.HandleJsonReader(rdr, mh, eh)
				if herr == nil {
					herr = herr2
				}
			case "HandleJsonReaderRaw":
				herr2 := mxj.HandleJsonReaderRaw(rdr, mhr, ehr)
				if herr == nil {
					herr = herr2
				}
			case "x2j-wrapper.XmlMsgsFromReader":
				herr2 := x2jw.XmlMsgsFromReader(rdr, func(m map[string]interface{}) bool { return mh(m) }, eh)
				if herr == nil {
					herr = herr2
				}
			}
		default:
			for i := 0; i <= len(k.Docs)+1; i++ {
				var r res
				switch k.Fn {
				case "NewMapXmlReader":
					m, e := mxj.NewMapXmlReader(rdr)
					r.m, r.err = m, e
				case "NewMapXmlReaderRaw":
					m, raw, e := mxj.NewMapXmlReaderRaw(rdr)
					r.m, r.raw, r.err = m, raw, e
				case "NewMapXmlSeqReader":
					m, e := mxj.NewMapXmlSeqReader(rdr)
					r.m, r.err = m, e
				case "NewMapXmlSeqReaderRaw":
					m, raw, e := mxj.NewMapXmlSeqReaderRaw(rdr)
					r.m, r.raw, r.err = m, raw, e
				case "NewMapJsonReader":
					m, e := mxj.NewMapJsonReader(rdr)
					r.m, r.err = m, e
				case "NewMapJsonReaderRaw":
					m, raw, e := mxj.NewMapJsonReaderRaw(rdr)
					r.m, r.raw, r.err = m, raw, e
				case "x2j-wrapper.ToMap":
					m, e := x2jw.ToMap(rdr)
					r.m, r.err = m, e
				}
				r.offset = sr.pos
				results = append(results, r)
				if r.err != nil {
					break
				}
			}
		}
	})
	c.S.Transitions += int64(len(k.Docs) + 1)
	c.S.Validated++
	c.S.Schedules++
	if sr.maxAsk > 1 {
		c.Count("reads_asking_more_than_one_byte", 1)
	}
	if pan {
		viol("panic", st)
		return
	}
	if sr.overHorz {
		viol("non-termination", fmt.Sprintf("the reader was called more than %d times", sr.horizon))
		return
	}
	c.Outcome(fmt.Sprintf("%s|%d|%d|%v", k.Fn, len(results), len(handled), herr))
	if len(results) > 0 {
		// sequence of results = decode(doc_1) ... decode(doc_n), io.EOF
		for i, r := range results {
			if i < len(k.Docs) {
				if r.err != nil {
					viol("sequence", fmt.Sprintf("call %d: error %v where document %d (%q) was expected", i+1, r.err, i+1, k.Docs[i]))
					return
				}
				if !deepEq(r.m, expect(i)) {
					viol("sequence", fmt.Sprintf("call %d returned %s, direct decode of document %d gives %s", i+1, dump(r.m), i+1, dump(expect(i))))
					return
				}
				// no over-read: after document i the reader has consumed at least to its end and nothing of the next document
				if r.offset < ends[i] || (i+1 < len(k.Docs) && r.offset > starts[i+1]) {
					viol("over-read", fmt.Sprintf("after call %d the reader has delivered %d bytes; document %d spans [%d,%d)", i+1, r.offset, i+1, starts[i], ends[i]))
					return
				}
			} else {
				if r.err != io.EOF || len(r.m) != 0 {
					viol("sequence", fmt.Sprintf("call %d: expected io.EOF after the last document, got %s, %v", i+1, dump(r.m), r.err))
				}
				break
			}
		}
		if len(results) != len(k.Docs)+1 {
			viol("sequence", fmt.Sprintf("%d calls returned a result; expected %d documents and io.EOF", len(results), len(k.Docs)))
			return
		}
		// raw values
		if strings.HasSuffix(k.Fn, "Raw") {
			var cat []byte
			for i := 0; i < len(k.Docs); i++ {
				raw := results[i].raw
				if isJSON {
					if strings.TrimSpace(string(raw)) != k.Docs[i] {
						viol("raw", fmt.Sprintf("call %d raw=%q, expected the document %q", i+1, raw, k.Docs[i]))
						return
					}
				} else {
					if !bytes.Contains(raw, []byte(k.Docs[i])) {
						viol("raw", fmt.Sprintf("call %d raw=%q does not contain document %q", i+1, raw, k.Docs[i]))
						return
					}
					cat = append(cat, raw...)
				}
			}
			if !isJSON && !strings.HasPrefix(stream, string(cat)) {
				viol("raw", fmt.Sprintf("concatenated raw values %q are not a prefix of the stream", cat))
			}
		}
		return
	}
	// handlers: once per document, in order, stop after the first false
	want := len(k.Docs)
	if k.StopAt > 0 && k.StopAt < want {
		want = k.StopAt
	}
	if herr != nil {
		viol("handler-sequence", fmt.Sprintf("error handler called / error returned: %v (after %d documents)", herr, len(handled)))
		return
	}
	if len(handled) != want {
		viol("handler-sequence", fmt.Sprintf("map handler invoked %d times, expected %d", len(handled), want))
		return
	}
	for i, m := range handled {
		if !deepEq(m, expect(i)) {
			viol("handler-sequence", fmt.Sprintf("document %d: handler received %s, direct decode gives %s", i+1, dump(m), dump(expect(i))))
			return
		}
	}
	for i, raw := range handledRaw {
		// a handler may keep the raw slice it was handed (as a caller keeps NewMap...ReaderRaw's result):
		// documents read later must not rewrite it
		if !bytes.Equal(handledRawLive[i], raw) {
			viol("raw", fmt.Sprintf("the raw slice handed to the handler for document %d was %q and reads %q after the later documents were processed", i+1, raw, handledRawLive[i]))
			break
		}
		if isJSON {
			if strings.TrimSpace(string(raw)) != k.Docs[i] {
				viol("raw", fmt.Sprintf("handler raw %d = %q, expected the document %q", i+1, raw, k.Docs[i]))
			}
		} else if !bytes.Contains(raw, []byte(k.Docs[i])) {
			viol("raw", fmt.Sprintf("handler raw %d = %q does not contain %q", i+1, raw, k.Docs[i]))
		}
	}
	if k.StopAt > 0 && k.StopAt < len(k.Docs) && sr.pos > starts[k.StopAt] {
		viol("over-read", fmt.Sprintf("handler stopped at document %d but the reader delivered %d bytes (next document starts at %d)", k.StopAt, sr.pos, starts[k.StopAt]))
	}
}

func c13Run(c *Ctx) {
	mustBeDefault(c)
	c.S.Rule = "cases = (stream, function, reader kind, handler stop point); streams are concatenations of 1..3 documents (XML: <a/>, <a>x</a>, <a b=\"1\"><c/>t</a>, a document with XML declaration, a document with 2-, 3- and 4-byte characters in names and values (every delivery split falls inside them); JSON: {\"a\":1}, a string value with braces and quotes, a string ending in an escaped backslash, a string with an escaped backslash followed by an escaped quote, nested object/array with a bracket in a string, multi-byte characters in key and value) with separators {none, space, newline+tab} and optional trailing blanks; functions NewMapXmlReader[Raw], NewMapXmlSeqReader[Raw], NewMapJsonReader[Raw], HandleXmlReader[Raw], HandleJsonReader[Raw] (map handler returning false at every k), x2j-wrapper ToMap / XmlMsgsFromReader; reader kinds plain io.Reader and io.Reader+io.ByteReader. Schedules (E-choice): every Read call is a choice point - default full delivery, short read, (0,nil) (at most 2 in a row), final data together with io.EOF - explored exhaustively for deviation bound 0,1,2 (thorough: 3 on single documents and on two-document streams without separator of up to 90 bytes, 2 on such three-document streams of up to 70 bytes); plus patterned schedules with 50 and 97 empty reads before every delivery (bound 1 over the remaining choices); plus large first documents (about 4090, 4096, 4100 and 9000 bytes: around the 4096-byte buffers of bufio and the tokenizer) followed by a small one, delivered whole, 1 byte, 7 bytes and 4096 bytes per Read (bound 0); the JSON functions also under JsonUseNumber (bound 1). Oracle: results = direct decodes in order then io.EOF, no over-read into the next document, Raw values as documented, handlers once per document in order and stop on false, termination within the reader horizon. non-trivial = executions with at least one deviation (counted in counters.deviating_schedules)."
	c.S.Assumptions = []string{"the empty JSON object {} is not in the alphabet (handlers treat an empty Map as 'nothing arrived yet' by design)", "an io.ByteReader cannot legally deliver a byte together with an error, so that kind has only the default schedule"}
	xmlDocs := []string{`<a/>`, `<a>x</a>`, `<a b="1"><c/>t</a>`, `<?xml version="1.0"?><a>y</a>`, "<\u00e9 k=\"\u20ac\">\U0001F600</\u00e9>"}
	jsonDocs := []string{`{"a":1}`, `{"a":"}{\""}`, `{"a":"x\\"}`, `{"a":{"b":[1,{"c":"]"}]}}`, `{"e":"\\\"{"}`, `{"p":"C:\\dir\\ "}`, "{\"\u00e9\":\"\u20ac\U0001F600\"}", "{\"p\":\"C:\\\\\u20ac\"}", `{ "a" : [ 1 , 2 ] }`, "{\n\t\"a\": \"x y\"\r\n}"}
	xmlFns := []string{"NewMapXmlReader", "NewMapXmlReaderRaw", "NewMapXmlSeqReader", "NewMapXmlSeqReaderRaw", "HandleXmlReader", "HandleXmlReaderRaw", "x2j-wrapper.ToMap", "x2j-wrapper.XmlMsgsFromReader"}
	jsonFns := []string{"NewMapJsonReader", "NewMapJsonReaderRaw", "HandleJsonReader", "HandleJsonReaderRaw"}
	maxDocs := 2
	if c.Thorough {
		maxDocs = 3
	}
	var cases []c13Case
	build := func(docs []string, fns []string) {
		var lists [][]string
		seqs(docs, maxDocs, func(s []string) { lists = append(lists, append([]string(nil), s...)) })
		for _, l := range lists {
			for _, sep := range []string{"", " ", "\n\t"} {
				if len(l) == 1 && sep != "" {
					continue
				}
				// the sequence decoder keeps a declaration as a no-root result: only leading position in its streams
				for _, trail := range []string{"", " \n"} {
					for _, fn := range fns {
						if strings.Contains(fn, "Seq") {
							skip := false
							for _, d := range l {
								if strings.HasPrefix(d, "<?xml") {
									skip = true
								}
							}
							if skip {
								continue
							}
						}
						for _, br := range []bool{false, true} {
							stops := []int{0}
							if strings.Contains(fn, "Handle") || strings.Contains(fn, "XmlMsgs") {
								for s := 1; s <= len(l); s++ {
									stops = append(stops, s)
								}
							}
							for _, st := range stops {
								cases = append(cases, c13Case{Docs: l, Sep: sep, Trail: trail, Fn: fn, ByteRd: br, StopAt: st})
							}
						}
					}
				}
			}
		}
	}
	build(xmlDocs, xmlFns)
	build(jsonDocs, jsonFns)
	// documents in a declared 8-bit encoding, read through XmlCharsetReader: the tokenizer then reads through the
	// wrapper's Read method, and a charset reader asks for whole buffers
	{
		n0 := len(cases)
		build([]string{"<?xml version=\"1.0\" encoding=\"ISO-8859-1\"?><a>caf\xe9</a>", "<?xml version=\"1.0\" encoding=\"ISO-8859-1\"?><b k=\"\xe9\">x</b>"},
			[]string{"NewMapXmlReader", "NewMapXmlReaderRaw", "HandleXmlReader", "HandleXmlReaderRaw", "x2j-wrapper.ToMap", "x2j-wrapper.XmlMsgsFromReader"})
		kept := cases[:n0]
		for _, k := range cases[n0:] {
			// (a caller's own io.ByteReader included: until the third bug-hunt round those cases were left out for the
			// non-Raw forms with the argument that encoding/xml hands such a reader to the CharsetReader as it is - but
			// NewMapXmlReader wraps readers precisely so that nothing beyond the document is consumed, and it can wrap these too)
			k.Latin1 = true
			kept = append(kept, k)
		}
		cases = kept
	}
	// the JSON reader functions under JsonUseNumber (numbers keep their text, like the direct decode)
	for _, k := range append([]c13Case(nil), cases...) {
		if !strings.Contains(k.Fn, "Json") || k.Stalls > 0 || k.Big > 0 || k.ByteRd || k.Trail != "" || !strings.Contains(strings.Join(k.Docs, ""), "1") {
			continue
		}
		k2 := k
		k2.UseNum = true
		cases = append(cases, k2)
	}
	for _, d := range []string{`<?xml version="1.0"?><a>y</a>`, `<!-- c --><a/>`, `<!DOCTYPE a><a b="1">t</a>`, `<?pi x?><!-- c --><a><b/></a>`} {
		if c.Mine() {
			c.S.States++
			c13SeqProlog(c, d)
		}
	}
	// patterned schedules: 50 / 97 empty reads before every delivery (legal: fewer than 100 in a row), on the
	// plain-reader cases with two documents or trailing blanks
	for _, k := range append([]c13Case(nil), cases...) {
		if k.ByteRd || k.UseNum || (len(k.Docs) < 2 && k.Trail == "") || len(k.Docs) > 2 {
			continue
		}
		for _, st := range []int{50, 97} {
			k2 := k
			k2.Stalls = st
			cases = append(cases, k2)
		}
	}
	// large documents (beyond the 4096-byte buffers of bufio and the tokenizer): a generated document of
	// 4090-4100 / 9000 bytes followed by a small one, delivered whole, byte by byte, 7 bytes at a time and in
	// 4096-byte pieces; no further deviations (bound 0)
	for _, k := range append([]c13Case(nil), cases...) {
		if k.ByteRd || k.UseNum || len(k.Docs) != 2 || k.Stalls > 0 || k.Trail != "" || k.StopAt > 1 || k.Docs[0] != k.Docs[1] {
			continue
		}
		first := xmlDocs[0]
		if strings.Contains(k.Fn, "Json") {
			first = jsonDocs[0]
		}
		if k.Docs[0] != first {
			continue
		}
		for _, big := range []int{4090, 4096, 4100, 9000} {
			for _, chunk := range []int{0, 1, 7, 4096} {
				k2 := k
				k2.Big, k2.Chunk = big, chunk
				cases = append(cases, k2)
			}
		}
	}
	if c.Shard == 0 {
		c.Count("cases", int64(len(cases)))
	}
	for _, k := range cases {
		if !c.Mine() {
			continue
		}
		k := k
		bound := 2
		if len(k.Docs) >= 3 {
			bound = 1
		}
		if c.Thorough && len(k.Docs) == 1 {
			bound = 3
		}
		if c.Thorough && len(k.Docs) == 2 && k.Sep == "" && k.Trail == "" && k.StopAt == 0 && !k.Latin1 && len(k.Docs[0])+len(k.Docs[1]) <= 90 {
			bound = 3 // the shortest two-document streams: three deviations can straddle the document boundary
		}
		if c.Thorough && len(k.Docs) == 3 && k.Sep == "" && k.Trail == "" && k.StopAt == 0 && len(k.Docs[0])+len(k.Docs[1])+len(k.Docs[2]) <= 70 {
			bound = 2
		}
		if k.ByteRd {
			bound = 0
		}
		if k.Stalls > 0 {
			bound = 1
		}
		if k.Big > 0 {
			bound = 0
		}
		if k.UseNum {
			bound = 1
		}
		c.S.States++
		c.S.Evaluations++
		ex := &Explorer{Bound: bound, MaxExecs: 400000,
			Run:   func() { c13Exec(c, k, curExec.prefix) },
			Check: func(x *Exec) bool { return c.S.ViolationCount < 200000 }}
		ex.Explore()
		if ex.Execs > 1 {
			c.S.Nontrivial++
			c.Count("deviating_schedules", ex.Execs-1)
		}
		if ex.CapHit {
			c.Cap("E-choice executions per case capped at 400000")
			c.S.Exhaustive = false
		}
		if ex.Diverged != "" {
			c.Broken("C13: %s", ex.Diverged)
		}
		if bound > c.S.BoundCompleted {
			c.S.BoundCompleted = bound
		}
		if c.sampleN < 3 {
			c.Sample(k)
		}
		c.sampleN++
	}
	resetOptions()
}

// c13SeqProlog: a document whose root is preceded by a declaration, comment or DOCTYPE. The sequence decoder
// documents a no-root result for the leading item; its reader and raw-reader forms must return what the
// byte form returns (Map and error alike) for every call until the stream ends.
func c13SeqProlog(c *Ctx, doc string) {
	cas := c13Case{Docs: []string{doc}, Fn: "NewMapXmlSeqReader[Raw] with prolog"}
	type step struct {
		m   string
		err string
	}
	run := func(kind int) (out []step, raws []string) {
		r := newHR([]byte(doc))
		for i := 0; i < 6; i++ {
			var m mxj.MapSeq
			var err error
			var raw []byte
			switch kind {
			case 0:
				m, err = mxj.NewMapXmlSeqReader(r)
			default:
				m, raw, err = mxj.NewMapXmlSeqReaderRaw(r)
				raws = append(raws, string(raw))
			}
			e := ""
			if err != nil {
				e = err.Error()
			}
			out = append(out, step{dump(map[string]interface{}(m)), e})
			if err == io.EOF {
				break
			}
		}
		return
	}
	var a, b []step
	var raws []string
	st, pan := protect(func() {
		a, _ = run(0)
		b, raws = run(1)
	})
	c.S.Transitions += 2
	c.S.Validated++
	if pan {
		c.Violate("NewMapXmlSeqReaderRaw", "panic", "prolog", cas, nil, st)
		return
	}
	if fmt.Sprint(a) != fmt.Sprint(b) {
		c.Violate("NewMapXmlSeqReaderRaw", "sequence", "prolog", cas, nil, fmt.Sprintf("doc=%q\n NewMapXmlSeqReader   : %v\n NewMapXmlSeqReaderRaw: %v", doc, a, b))
		return
	}
	if got := strings.Join(raws, ""); !strings.HasPrefix(doc, got) && !strings.HasPrefix(got, doc) {
		c.Violate("NewMapXmlSeqReaderRaw", "raw", "prolog", cas, nil, fmt.Sprintf("doc=%q raws=%q", doc, raws))
	}
	// first result = what the byte form returns for the whole document
	m0, e0 := mxj.NewMapXmlSeq([]byte(doc))
	es := ""
	if e0 != nil {
		es = e0.Error()
	}
	if len(a) == 0 || a[0].m != dump(map[string]interface{}(m0)) || a[0].err != es {
		c.Violate("NewMapXmlSeqReader", "sequence", "prolog", cas, nil, fmt.Sprintf("doc=%q first reader result %v, NewMapXmlSeq gives %s / %q", doc, a, dump(map[string]interface{}(m0)), es))
	}
}
