package main

import "encoding/gob"

func init() {
	// callers of Map.Gob must register the container types they put behind interface{} (encoding/gob contract)
	gob.Register(map[string]interface{}{})
	gob.Register([]interface{}{})
}
