package main

import (
	"encoding/json"
	"fmt"
	"strconv"
	"strings"

	mxj "github.com/clbanning/mxj/v2"
	rt "github.com/clbanning/mxj/v2/zzverifrt"
)

// C10 — UpdateValuesForPath changes only the addressed values and reports how many.

type c10Case struct {
	Map     json.RawMessage `json:"map"`
	Key     string          `json:"key"`
	Val     json.RawMessage `json:"value"`
	AsStr   string          `json:"as_string,omitempty"` // non-empty: newVal passed as this "key:value[:type]" string
	Path    string          `json:"path"`
	SubKeys []string        `json:"subkeys,omitempty"`
	Pol     int             `json:"order_policy"`
	Sep     string          `json:"field_separator,omitempty"` // SetFieldSeparator in force (empty = default ':')
	Twin    json.RawMessage `json:"twin_map_with_distinct_leaves,omitempty"` // twin case: the same template with all leaves distinct
}

func init() {
	register(&Property{ID: "C10", Run: c10Run, Replay: func(c *Ctx, cas json.RawMessage, ch []int) {
		var k c10Case
		json.Unmarshal(cas, &k)
		m := fromJSON(string(k.Map)).(map[string]interface{})
		v := fromJSON(string(k.Val))
		run := func() { c10Check(c, m, k.Key, v, k.AsStr, k.Path, k.SubKeys, ch) }
		if len(k.Twin) > 0 {
			run = func() {
				c10Twin(c, fromJSON(string(k.Twin)).(map[string]interface{}), fromJSON(string(k.Map)).(map[string]interface{}), k.Key, v, k.AsStr, k.Path, ch)
			}
		}
		if k.Sep != "" {
			mxj.SetFieldSeparator(k.Sep)
			c10Sep = k.Sep
			defer func() { mxj.SetFieldSeparator(); c10Sep = "" }()
		}
		if len(ch) > 0 {
			rt.OrderPolicy = rt.PolicyChoose
			runWith(ch, run)
		} else {
			rt.OrderPolicy = k.Pol
			run()
		}
		rt.OrderPolicy = rt.PolicySorted
	}})
}

// c10Sep: the field separator in force for the current case ("" = the default ':').
var c10Sep string

// refLocs walks plain/wildcard steps like refPlain but reports the location of every value reached.
// Locations: "/key" for a map entry, "/#i" for a list member.
func refLocs(v interface{}, loc string, steps []string, rec bool, f func(loc string, val interface{})) {
	if len(steps) == 0 {
		if l, ok := v.([]interface{}); ok {
			for i, e := range l {
				if _, isL := e.([]interface{}); isL && rec {
					refLocs(e, loc+"/#"+strconv.Itoa(i), nil, rec, f)
				} else {
					f(loc+"/#"+strconv.Itoa(i), e)
				}
			}
			return
		}
		f(loc, v)
		return
	}
	s, rest := steps[0], steps[1:]
	var visit func(n interface{}, nloc string, fromList bool)
	visit = func(n interface{}, nloc string, fromList bool) {
		switch m := n.(type) {
		case map[string]interface{}:
			if s == "*" {
				for _, k := range sortedKeys(m) {
					refLocs(m[k], nloc+"/"+k, rest, rec, f)
				}
			} else if e, ok := m[s]; ok {
				refLocs(e, nloc+"/"+s, rest, rec, f)
			}
		case []interface{}:
			if !fromList {
				return
			}
			if s == "*" {
				refLocs(n, nloc, rest, rec, f)
			} else if rec {
				for i, e := range m {
					visit(e, nloc+"/#"+strconv.Itoa(i), true)
				}
			}
		default:
			if s == "*" && fromList {
				refLocs(n, nloc, rest, rec, f)
			}
		}
	}
	if l, ok := v.([]interface{}); ok {
		for i, e := range l {
			visit(e, loc+"/#"+strconv.Itoa(i), true)
		}
	} else {
		visit(v, loc, false)
	}
}

// c10Addressed: the set of entry locations (".../k") the update may touch.
func c10Addressed(root map[string]interface{}, key string, steps []string) map[string]bool {
	out := map[string]bool{}
	for _, rec := range []bool{false, true} {
		addMapK := func(loc string, val interface{}) {
			if _, ok := val.(map[string]interface{}); ok {
				out[loc+"/"+key] = true
			}
		}
		last := steps[len(steps)-1]
		parent := steps[:len(steps)-1]
		if last == key || last == "*" {
			// form A: the k entries of the nodes the parent path yields
			if len(parent) == 0 {
				addMapK("", root)
			} else {
				refLocs(root, "", parent, rec, addMapK)
			}
		}
		if last != key {
			// form B: the k entry of each node the path yields
			refLocs(root, "", steps, rec, addMapK)
		}
		if !hasListInList(root) {
			break
		}
	}
	return out
}

type c10Change struct {
	loc       string      // location of the changed entry or list member
	container interface{} // the map containing the k entry (before state) / the list member (before state)
	memberLvl bool
	inserted  bool
	after     interface{}
}

// c10Diff compares before and after; returns changed locations and frame violations.
func c10Diff(key string, before, after interface{}, loc string, parentMap map[string]interface{}, out *[]c10Change, frame *[]string) {
	if deepEq(before, after) {
		return
	}
	bm, bok := before.(map[string]interface{})
	am, aok := after.(map[string]interface{})
	if bok && aok {
		same := len(bm) == len(am)
		if same {
			for k := range bm {
				if _, ok := am[k]; !ok {
					same = false
				}
			}
		}
		if same {
			for _, k := range sortedKeys(bm) {
				c10Diff(key, bm[k], am[k], loc+"/"+k, bm, out, frame)
			}
			return
		}
		// key set differs: allowed only as insertion of new keys (checked by the caller via 'inserted')
		removed := false
		for k := range bm {
			if _, ok := am[k]; !ok {
				removed = true
			}
		}
		for k := range am {
			if _, ok := bm[k]; !ok && k != key {
				removed = true // an added key other than k: the whole entry was replaced
			}
		}
		if !removed {
			for _, k := range sortedKeys(am) {
				if _, ok := bm[k]; !ok {
					*out = append(*out, c10Change{loc: loc + "/" + k, container: bm, inserted: true, after: am[k]})
				} else {
					c10Diff(key, bm[k], am[k], loc+"/"+k, bm, out, frame)
				}
			}
			return
		}
		*out = append(*out, c10Change{loc: loc, container: parentMap, after: after})
		return
	}
	bl, blok := before.([]interface{})
	al, alok := after.([]interface{})
	if blok && alok && (bl == nil) != (al == nil) {
		// an empty list turned into a nil one (or back): observable (JSON [] vs null), so it is a change
		*out = append(*out, c10Change{loc: loc, container: parentMap, after: after})
		return
	}
	if blok && alok && len(bl) == len(al) {
		for i := range bl {
			if !deepEq(bl[i], al[i]) {
				sub := loc + "/#" + strconv.Itoa(i)
				// a member that is itself changed deeper inside (same shape) is walked, otherwise it is a member-level replacement
				_, bmok := bl[i].(map[string]interface{})
				_, amok := al[i].(map[string]interface{})
				if bmok && amok {
					var inner []c10Change
					c10Diff(key, bl[i], al[i], sub, nil, &inner, frame)
					// if the inner diff is just "this location replaced", report it as member-level
					if len(inner) == 1 && inner[0].loc == sub {
						*out = append(*out, c10Change{loc: sub, container: bl[i], memberLvl: true, after: al[i]})
					} else {
						*out = append(*out, inner...)
					}
				} else if _, ll := bl[i].([]interface{}); ll {
					c10Diff(key, bl[i], al[i], sub, nil, out, frame)
				} else {
					*out = append(*out, c10Change{loc: sub, container: bl[i], memberLvl: true, after: al[i]})
				}
			}
		}
		return
	}
	*out = append(*out, c10Change{loc: loc, container: parentMap, after: after})
}

func lastSeg(loc string) (parent, seg string) {
	i := strings.LastIndex(loc, "/")
	return loc[:i], loc[i+1:]
}

func c10Check(c *Ctx, m map[string]interface{}, key string, val interface{}, asStr, path string, subkeys []string, choices []int) (nontrivial bool) {
	before := deepCopy(m).(map[string]interface{})
	mv := mxj.Map(m)
	cas := func() interface{} {
		return c10Case{Map: json.RawMessage(jsonOf(before)), Key: key, Val: json.RawMessage(jsonOf(val)), AsStr: asStr, Path: path, SubKeys: subkeys, Pol: rt.OrderPolicy, Sep: c10Sep}
	}
	steps := strings.Split(path, ".")
	shape := "plain"
	if hasListInList(before) {
		shape = "list-in-list"
	}
	if len(subkeys) > 0 {
		shape += ",subkeys"
	}
	if strings.Contains(path, "*") {
		shape += ",wildcard"
	}
	var newVal interface{} = map[string]interface{}{key: deepCopy(val)}
	if asStr != "" {
		newVal = asStr
	}
	var count int
	var err error
	st, pan := protect(func() { count, err = mv.UpdateValuesForPath(newVal, path, subkeys...) })
	c.S.Transitions++
	if pan {
		c.Violate("Map.UpdateValuesForPath", "panic", shape, cas, choices, st)
		return
	}
	if err != nil {
		c.Violate("Map.UpdateValuesForPath", "error-on-wellformed-arguments", shape, cas, choices, err.Error())
		return
	}
	var changes []c10Change
	var frame []string
	c10Diff(key, before, map[string]interface{}(mv), "", nil, &changes, &frame)
	addressed := c10Addressed(before, key, steps)
	var conds []cond
	for _, s := range subkeys {
		conds = append(conds, parseCond(s, c10Sep))
	}
	detail := func(what string) string {
		return fmt.Sprintf("%s\n before=%s\n  after=%s\n newVal=%s path=%q subkeys=%v count=%d", what, jsonOf(before), jsonOf(map[string]interface{}(mv)), jsonOf(newVal), path, subkeys, count)
	}
	for _, ch := range changes {
		// (1) frame: replacement by the new value of an entry under key k, or of a member of a list under k
		entryLoc := ch.loc
		if ch.memberLvl {
			entryLoc, _ = lastSeg(ch.loc)
			// nested lists: climb to the entry
			for strings.HasPrefix(entryLoc[strings.LastIndex(entryLoc, "/")+1:], "#") {
				entryLoc, _ = lastSeg(entryLoc)
			}
		}
		_, seg := lastSeg(entryLoc)
		if !deepEq(ch.after, val) || seg != key || strings.HasPrefix(seg, "#") {
			c.Violate("Map.UpdateValuesForPath", "frame", shape, cas, choices, detail("changed "+ch.loc+" is not a replacement by the new value of an entry under key "+key))
			return true
		}
		// (2) location
		if !addressed[entryLoc] {
			sh := shape
			c.Violate("Map.UpdateValuesForPath", "location", sh, cas, choices, detail("changed entry "+entryLoc+" is not addressed by the path (addressed: "+fmt.Sprint(keysOf(addressed))+")"))
			return true
		}
		// (3) sub-keys
		if len(conds) > 0 && !refSubKeys(ch.container, conds, true) {
			c.Violate("Map.UpdateValuesForPath", "subkeys", shape, cas, choices, detail("changed "+ch.loc+" although its node does not satisfy the sub-keys"))
			return true
		}
		// (3b) a list of maps under k replaced as a whole although the node that holds it has none of the keys the
		// sub-keys name: such conditions can only select among the list members - the way ValuesForPath(path, subkeys)
		// applies them, and the way UpdateValuesForPath applies a positive condition. Kept to exclusion conditions
		// with a value ("!key:value"): for "!key:*" replacing the whole list is what the library has always done and
		// no property decides between the two; this clause guards the member selection that fix dba99f9 (exclusion
		// on an absent key) had switched off for UpdateValuesForPath by accident.
		onlyValued := true
		for _, cd := range conds {
			if !cd.neg || cd.wild {
				onlyValued = false
			}
		}
		// (only in the addressing form whose path ends in k: there the values the path yields are the list members; in
		// the other form the path yields the node that holds k, and the conditions are about that node)
		if len(conds) > 0 && onlyValued && !ch.memberLvl && !ch.inserted && steps[len(steps)-1] == key && !strings.Contains(ch.loc, "#") {
			// (... and only where the holder of k is reached through maps: for a holder that is itself a list member the
			// library applies the conditions to that member and has never looked at the members of the list under k)
			if old, isList := atLoc(before, ch.loc).([]interface{}); isList {
				pm, _ := ch.container.(map[string]interface{})
				names, anyMap := false, false
				for _, cd := range conds {
					if _, has := pm[cd.key]; has {
						names = true
					}
				}
				for _, e := range old {
					if _, isM := e.(map[string]interface{}); isM {
						anyMap = true
					}
				}
				if !names && anyMap && pm != nil {
					c.Violate("Map.UpdateValuesForPath", "subkeys-select-list-members", shape, cas, choices, detail("the list at "+ch.loc+" was replaced as a whole although its node has none of the keys the sub-keys name"))
					return true
				}
			}
		}
	}
	// (4) count
	if count != len(changes) {
		c.Violate("Map.UpdateValuesForPath", "count", shape, cas, choices, detail(fmt.Sprintf("count=%d but %d values were replaced", count, len(changes))))
		return true
	}
	// (5) when the path ends in k and no sub-keys are given, ValuesForPath afterwards yields exactly count copies of v
	if steps[len(steps)-1] == key && len(subkeys) == 0 {
		if _, isList := val.([]interface{}); !isList {
			var vs []interface{}
			st, pan = protect(func() { vs, err = mv.ValuesForPath(path) })
			c.S.Transitions++
			ok := !pan && err == nil && len(vs) == count
			if ok {
				for _, x := range vs {
					if !deepEq(x, val) {
						ok = false
					}
				}
			}
			if !ok {
				c.Violate("Map.UpdateValuesForPath", "count-copies", shape, cas, choices, detail(fmt.Sprintf("ValuesForPath afterwards=%v %v %s", dumpSeq(vs), err, st)))
				return true
			}
		}
	}
	c.Outcome(fmt.Sprintf("%d|%s", count, dump(map[string]interface{}(mv))))
	// the updated Map stays with the caller: later calls (on any Map) must leave it as it is now
	c.RetainTree("Map.UpdateValuesForPath", map[string]interface{}(mv), cas)
	return count > 0
}

func keysOf(m map[string]bool) []string {
	var r []string
	for k := range m {
		r = append(r, k)
	}
	return sortedCopy(r)
}

// c10Twin: differential oracle for Maps that already hold the new value somewhere. m0 and m1 are the same
// template, m0 with all leaves distinct ("v1", "v2", ...: the Maps c10Check judges), m1 with every second leaf
// equal to the new value. Without sub-keys which values a path addresses depends on keys and structure only,
// so the same call must return the same count on both and leave m1 as it leaves m0, leaf for leaf; and when
// the path ends in k, ValuesForPath(path) afterwards yields exactly count copies of v on m1 as well.
func c10Twin(c *Ctx, m0, m1 map[string]interface{}, key string, val interface{}, asStr, path string, choices []int) bool {
	before1 := deepCopy(m1).(map[string]interface{})
	before0 := deepCopy(m0).(map[string]interface{})
	cas := func() interface{} {
		return c10Case{Map: json.RawMessage(jsonOf(before1)), Twin: json.RawMessage(jsonOf(before0)), Key: key, Val: json.RawMessage(jsonOf(val)), AsStr: asStr, Path: path, Pol: rt.OrderPolicy}
	}
	nv := func() interface{} {
		if asStr != "" {
			return asStr
		}
		return map[string]interface{}{key: deepCopy(val)}
	}
	var c0, c1 int
	var e0, e1 error
	st, pan := protect(func() {
		c0, e0 = mxj.Map(m0).UpdateValuesForPath(nv(), path)
		c1, e1 = mxj.Map(m1).UpdateValuesForPath(nv(), path)
	})
	c.S.Transitions += 2
	shape := "already-holds-new-value"
	if pan {
		c.Violate("Map.UpdateValuesForPath", "panic", shape, cas, choices, st)
		return true
	}
	detail := func(s string) string {
		return fmt.Sprintf("%s\n   before=%s\n    after=%s\n   newVal=%s path=%q count=%d err=%v\n   twin (all leaves distinct): before=%s after=%s count=%d err=%v", s, dump(before1), dump(m1), dump(nv()), path, c1, e1, dump(before0), dump(m0), c0, e0)
	}
	if (e0 == nil) != (e1 == nil) || c0 != c1 {
		c.Violate("Map.UpdateValuesForPath", "count", shape, cas, choices, detail("the count differs from the count of the same call on the same Map with all leaves distinct: the count is the number of values the call replaces, whatever they held"))
		return true
	}
	// m0's result with the leaves m1 started with: every even-numbered leaf "vN" reads "NEW"
	var relabel func(v interface{}) interface{}
	relabel = func(v interface{}) interface{} {
		switch x := v.(type) {
		case map[string]interface{}:
			o := make(map[string]interface{}, len(x))
			for k, e := range x {
				o[k] = relabel(e)
			}
			return o
		case []interface{}:
			if x == nil {
				return x
			}
			o := make([]interface{}, len(x))
			for i, e := range x {
				o[i] = relabel(e)
			}
			return o
		case string:
			if len(x) > 1 && x[0] == 'v' {
				if n, err := strconv.Atoi(x[1:]); err == nil && n%2 == 0 {
					return "NEW"
				}
			}
		}
		return v
	}
	if want := relabel(m0); !deepEq(want, map[string]interface{}(m1)) {
		c.Violate("Map.UpdateValuesForPath", "only-addressed-values", shape, cas, choices, detail("the Map differs from what the same call leaves of the same Map with all leaves distinct (leaf for leaf): expected "+dump(want)))
		return true
	}
	steps := strings.Split(path, ".")
	if e1 == nil && steps[len(steps)-1] == key {
		var vs []interface{}
		var err error
		st, pan = protect(func() { vs, err = mxj.Map(m1).ValuesForPath(path) })
		c.S.Transitions++
		ok := !pan && err == nil && len(vs) == c1
		for _, x := range vs {
			if !deepEq(x, val) {
				ok = false
			}
		}
		if !ok {
			c.Violate("Map.UpdateValuesForPath", "count-copies", shape, cas, choices, detail(fmt.Sprintf("ValuesForPath afterwards=%v %v %s", dumpSeq(vs), err, st)))
			return true
		}
	}
	c.Outcome(fmt.Sprintf("twin|%d|%s", c1, dump(map[string]interface{}(m1))))
	return c1 > 0
}

// halfNewLeaves: numbered string leaves, every second one already equal to the new value "NEW".
func halfNewLeaves() func() interface{} {
	n := 0
	return func() interface{} {
		n++
		if n%2 == 0 {
			return "NEW"
		}
		return "v" + strconv.Itoa(n)
	}
}

func c10Run(c *Ctx) {
	mustBeDefault(c)
	c.S.Rule = "cases = (Map, new value, path, sub-keys): every Map template with <= N nodes over keys {a,ab,k} (lists, list-in-list, empty containers) x new value {k|ab : \"NEW\" | {\"nk\":\"NEW\"}} given as map and as 'key:value[:type]' string (for the value \"NEW\" also on Maps in which every second leaf already holds \"NEW\", as an earlier update leaves them, judged against the same call on the twin Map with all leaves distinct: same count, same Map leaf for leaf, count copies afterwards; and the string form again under the field separators {|, ::, =>, U+00A7} with a value that contains ':', Maps one node smaller, paths of <= 2 steps; and sub-key texts that read differently under ':' and '|' applied under both in turn, twice) x every path of <= 3 steps over {a,b,k,z,*} (both addressing forms) x sub-key sets {none, presence, negated presence, value, typed}; oracle is relational on a deep copy taken before the call: frame, location (against reference addressed set), sub-keys, count, count-copies. Each case under ascending and descending map order; cases with wildcards additionally under every single order deviation (E-choice bound 1) for the smaller Maps. Updated Maps are retained (last 4) and re-checked deeply after every later call. non-trivial = count > 0."
	c.S.Assumptions = []string{"insertion of key k into an addressed map that lacks it is accepted (and counted iff it happens)", "addressed set computed by the reference walker (one-level reading; both readings accepted for list-in-list Maps)"}
	n1, n2, ech := 5, 5, 4
	if c.Thorough {
		n1, n2, ech = 6, 6, 5
	}
	var paths []string
	seqs([]string{"a", "ab", "k", "z", "*"}, 3, func(s []string) { paths = append(paths, strings.Join(s, ".")) })
	type nv struct {
		key   string
		val   interface{}
		asStr string
	}
	newVals := []nv{
		{"k", "NEW", ""}, {"k", map[string]interface{}{"nk": "NEW"}, ""}, {"ab", "NEW", ""},
		{"k", "NEW", "k:NEW"}, {"k", 7.5, "k:7.5:num"}, {"k", true, "k:true:bool"},
		{"k", 644.0, "k:0644:num"}, {"k", -17.0, "k:-017:float"}, {"k", 1000.0, "k:1e3:numeric"}, {"k", 10.0, "k:010:int"},
	}
	explore := func(nodes int, wild bool, f func(ch []int) bool) {
		rt.OrderPolicy = rt.PolicySorted
		nt := f(nil)
		c.S.Schedules++
		c.S.Validated++
		if wild {
			rt.OrderPolicy = rt.PolicyReverse
			f(nil)
			c.S.Schedules++
			c.S.Validated++
			if nt && nodes <= ech {
				rt.OrderPolicy = rt.PolicyChoose
				e := &Explorer{Bound: 1, MaxExecs: 3000, Run: func() { f(curExec.prefix) }, Check: func(x *Exec) bool { return true }}
				e.Explore()
				c.S.Schedules += e.Execs
				c.S.Validated += e.Execs
				if e.Diverged != "" {
					c.Broken("C10: %s", e.Diverged)
				}
				if e.CapHit {
					c.Cap("E-choice executions per case capped at 3000")
					c.S.Exhaustive = false
				}
				c.S.BoundCompleted = 1
			}
		}
		rt.OrderPolicy = rt.PolicySorted
		if nt {
			c.S.Nontrivial++
		}
	}
	g := newGen(GenP{Keys: []string{"a", "ab", "k"}, MaxList: 3, MaxKeys: 3, EmptyList: true, EmptyMap: true, ListInList: true})
	g.rootMaps(n1, func(t *T) {
		nodes := countNodes(t)
		for ni, v := range newVals {
			for _, p := range paths {
				if ni >= 3 && strings.Count(p, ".") > 1 && !c.Thorough {
					continue // string forms of the new value: paths of <= 2 steps in quick
				}
				if !c.Mine() {
					continue
				}
				c.S.States++
				c.S.Evaluations++
				explore(nodes, strings.Contains(p, "*"), func(ch []int) bool {
					m := inst(t, strLeaves()).(map[string]interface{})
					nt := c10Check(c, m, v.key, v.val, v.asStr, p, nil, ch)
					if nt {
						c.Sample(map[string]interface{}{"map": json.RawMessage(jsonOf(inst(t, strLeaves()))), "newVal": v.key, "path": p})
					}
					return nt
				})
				if ni == 0 || ni == 3 {
					// the same on a Map in which every second leaf already holds the new value (a state an
					// earlier update has left behind): the count is the number of values the call addresses
					c.S.States++
					c.S.Evaluations++
					explore(nodes, strings.Contains(p, "*"), func(ch []int) bool {
						return c10Twin(c, inst(t, strLeaves()).(map[string]interface{}), inst(t, halfNewLeaves()).(map[string]interface{}), v.key, v.val, v.asStr, p, ch)
					})
				}
			}
		}
	})
	// new value given as a string under the alternative field separators SetFieldSeparator documents for it, incl.
	// separators longer than one byte and a value that contains the default separator
	for _, sep := range []string{"|", "::", "=>", "\u00a7"} {
		vals := []nv{{"k", "NEW", "k" + sep + "NEW"}, {"k", 7.5, "k" + sep + "7.5" + sep + "num"}, {"k", "a:b", "k" + sep + "a:b"}, {"k", true, "k" + sep + "true" + sep + "bool"}, {"ab", "NEW", "ab" + sep + "NEW"}}
		sepApplied := false
		g.rootMaps(n1-1, func(t *T) {
			nodes := countNodes(t)
			for _, v := range vals {
				for _, p := range paths {
					if strings.Count(p, ".") > 1 || !c.Mine() {
						continue
					}
					if !sepApplied {
						mxj.SetFieldSeparator(sep)
						c10Sep = sep
						sepApplied = true
					}
					c.S.States++
					c.S.Evaluations++
					explore(nodes, strings.Contains(p, "*"), func(ch []int) bool {
						return c10Check(c, inst(t, strLeaves()).(map[string]interface{}), v.key, v.val, v.asStr, p, nil, ch)
					})
				}
			}
		})
		mxj.SetFieldSeparator()
		c10Sep = ""
	}
	// the same sub-key text under both separators in one process, switched back and forth between the calls:
	// "a|s:s" is (key "a|s" = "s") under ':' and (key "a" = "s:s") under '|'
	ambMap := `{"l":[{"a|s":"s","a":"q","k":"v1"},{"a":"s:s","k":"v2"},{"a|s":"q","a":"s:s","k":"v3"},{"a":"s","k":"v4"}],"k":"v5"}`
	for _, text := range []string{"a|s:s", "!a|s:s", "a|s:*", "a:s|s"} {
		if !c.Mine() {
			continue
		}
		c.S.States++
		c.S.Evaluations++
		for round := 0; round < 2; round++ {
			for _, sep := range []string{":", "|"} {
				if n := len(strings.Split(text, sep)); n < 2 || n > 3 {
					continue
				}
				mxj.SetFieldSeparator(sep)
				c10Sep = ""
				if sep != ":" {
					c10Sep = sep
				}
				for _, p := range []string{"l.k", "l", "*.k"} {
					c10Check(c, fromJSON(ambMap).(map[string]interface{}), "k", map[string]interface{}{"nk": "NEW"}, "", p, []string{text}, nil)
					c.S.Schedules++
					c.S.Validated++
				}
			}
		}
		mxj.SetFieldSeparator()
		c10Sep = ""
	}
	// wide family: more than 32 / 64 addressed values
	for _, width := range []int{31, 32, 33, 63, 64, 65, 70} {
		for _, p := range []string{"l.k", "l", "m.*.k", "m.*", "*.k"} {
			if !c.Mine() {
				continue
			}
			c.S.States++
			c.S.Evaluations++
			width := width
			explore(99, strings.Contains(p, "*"), func(ch []int) bool {
				wm := map[string]interface{}{}
				wl := make([]interface{}, width)
				for i := 0; i < width; i++ {
					wm[fmt.Sprintf("w%02d", i)] = map[string]interface{}{"k": fmt.Sprintf("m%d", i)}
					wl[i] = map[string]interface{}{"k": fmt.Sprintf("l%d", i)}
				}
				return c10Check(c, map[string]interface{}{"m": wm, "l": wl}, "k", "NEW", "", p, nil, ch)
			})
		}
	}
	// sub-key family: typed leaves so that value conditions can match
	g2 := newGen(GenP{Keys: []string{"a", "ab", "k"}, MaxList: 3, MaxKeys: 3, EmptyList: true, EmptyMap: true, ListInList: false, Leaves: []interface{}{"s", 1.0}})
	subsets := [][]string{{"a:*"}, {"!a:*"}, {"a:s"}, {"!a:s"}, {"a:1:num"}, {"!a:1:num"}, {"ab:*"}, {"z:*"}, {"!z:q"}, {"a:s", "ab:*"}, {"a:*", "!ab:1:num"}, {"!z:*", "a:q"}, {"a:q", "!z:*"}, {"!z:*", "ab:*"}}
	var paths2 []string
	seqs([]string{"a", "ab", "k", "*"}, 2, func(s []string) { paths2 = append(paths2, strings.Join(s, ".")) })
	g2.rootMaps(n2, func(t *T) {
		nodes := countNodes(t)
		for _, v := range newVals[:2] {
			for _, p := range paths2 {
				for _, sk := range subsets {
					if !c.Mine() {
						continue
					}
					c.S.States++
					c.S.Evaluations++
					explore(nodes+10, strings.Contains(p, "*"), func(ch []int) bool {
						m := inst(t, nil).(map[string]interface{})
						return c10Check(c, m, v.key, v.val, v.asStr, p, sk, ch)
					})
				}
			}
		}
	})
}
