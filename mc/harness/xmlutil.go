package main

import (
	"bytes"
	"encoding/xml"
	"fmt"
	"io"
	"reflect"
	"strings"
	"unsafe"
)

// wellFormed: encoding/xml tokenises the text to EOF without error, and there is exactly one
// top-level element with nothing but blanks, comments, PIs and directives around it.
func wellFormed(x []byte) error {
	d := xml.NewDecoder(bytes.NewReader(x))
	depth, roots := 0, 0
	for {
		t, err := d.Token()
		if err == io.EOF {
			break
		}
		if err != nil {
			return fmt.Errorf("tokenizer: %v", err)
		}
		switch tt := t.(type) {
		case xml.StartElement:
			if depth == 0 {
				roots++
			}
			depth++
		case xml.EndElement:
			depth--
		case xml.CharData:
			if depth == 0 && strings.TrimSpace(string(tt)) != "" {
				return fmt.Errorf("text outside the root element: %q", string(tt))
			}
		}
	}
	if depth != 0 {
		return fmt.Errorf("unbalanced document")
	}
	if roots != 1 {
		return fmt.Errorf("%d top-level elements", roots)
	}
	return nil
}

// rawTokens renders the raw token stream of a document, one string per token.
// Whitespace-only character data is dropped when dropBlank; text is trimmed when trim.
// Adjacent character data tokens are merged. <a/> and <a></a> give the same stream.
func rawTokens(x []byte, dropBlank, trim bool) ([]string, error) {
	d := xml.NewDecoder(bytes.NewReader(x))
	var out []string
	var text strings.Builder
	inText := false
	flush := func() {
		if !inText {
			return
		}
		s := text.String()
		text.Reset()
		inText = false
		if trim {
			s = strings.Trim(s, "\t\r\b\n ")
		}
		if s == "" || (dropBlank && strings.TrimSpace(s) == "") {
			return
		}
		out = append(out, "T:"+s)
	}
	for {
		t, err := d.RawToken()
		if err == io.EOF {
			break
		}
		if err != nil {
			return out, err
		}
		switch tt := t.(type) {
		case xml.CharData:
			text.Write(tt)
			inText = true
		case xml.StartElement:
			flush()
			s := "S:" + qn(tt.Name)
			for _, a := range tt.Attr {
				s += " " + qn(a.Name) + "=" + fmt.Sprintf("%q", a.Value)
			}
			out = append(out, s)
		case xml.EndElement:
			flush()
			out = append(out, "E:"+qn(tt.Name))
		case xml.Comment:
			flush()
			out = append(out, "C:"+string(tt))
		case xml.ProcInst:
			flush()
			out = append(out, "P:"+tt.Target+" "+string(tt.Inst))
		case xml.Directive:
			flush()
			out = append(out, "D:"+string(tt))
		}
	}
	flush()
	return out, nil
}

func qn(n xml.Name) string {
	if n.Space != "" {
		return n.Space + ":" + n.Local
	}
	return n.Local
}

// treeTokens renders the token stream an abstract document denotes (same format as rawTokens).
func treeTokens(e *XElem, dropBlank, trim bool, out *[]string) {
	s := "S:" + e.qname()
	for _, a := range e.Attrs {
		s += " " + a.qname() + "=" + fmt.Sprintf("%q", a.Value)
	}
	*out = append(*out, s)
	for _, it := range e.Items {
		switch it.Kind {
		case 'e':
			treeTokens(it.Elem, dropBlank, trim, out)
		case 't':
			t := it.Text
			if trim {
				t = strings.Trim(t, "\t\r\b\n ")
			}
			if t == "" || (dropBlank && strings.TrimSpace(t) == "") {
				continue
			}
			*out = append(*out, "T:"+t)
		case 'c':
			*out = append(*out, "C:"+it.Text)
		case 'p':
			*out = append(*out, "P:"+it.Target+" "+it.Text)
		case 'd':
			*out = append(*out, "D:"+it.Text)
		}
	}
	*out = append(*out, "E:"+e.qname())
}

// retained remembers byte results returned by the implementation so that a later call
// overwriting an earlier result (a pooled or package-level buffer escaping) is detected.
type retained struct {
	api  string
	live []byte
	copy []byte
	cas  interface{}
}

var retainRing []retained

// Retain records a returned byte slice and verifies all earlier ones are intact.
func (c *Ctx) Retain(api string, b []byte, cas func() interface{}) {
	for _, r := range retainRing {
		if !bytes.Equal(r.live, r.copy) {
			var cur interface{}
			if cas != nil {
				cur = cas()
			}
			c.Violate(r.api, "result-overwritten-by-later-call", "retained-result", map[string]interface{}{"sequence": []interface{}{r.cas, cur}}, nil,
				fmt.Sprintf("bytes returned earlier by %s were %q and are now %q after a later call to %s", r.api, short(string(r.copy), 200), short(string(r.live), 200), api))
			retainRing = nil
			break
		}
	}
	if len(b) == 0 {
		return
	}
	var cc interface{}
	if cas != nil {
		cc = cas()
	}
	retainRing = append(retainRing, retained{api, b, append([]byte(nil), b...), cc})
	if len(retainRing) > 64 {
		retainRing = retainRing[1:]
	}
}

// ---- retained non-byte results (slices of values, paths, leaf nodes) ----

type retainedVal struct {
	api  string
	live reflect.Value // the slice handed to the caller
	copy reflect.Value // element-wise snapshot taken at return time
	cas  interface{}
}

var retainValRing []retainedVal

// shallowSame: scalars equal, containers identical (same storage and length). A result shares its
// container members with the receiver by design; what must not happen is that the slots of a slice
// already handed to the caller are rewritten by a later call.
func shallowSame(a, b reflect.Value) bool {
	if a.IsValid() != b.IsValid() {
		return false
	}
	if !a.IsValid() {
		return true
	}
	if a.Kind() == reflect.Interface {
		if a.IsNil() || b.IsNil() {
			return a.IsNil() == b.IsNil()
		}
		a, b = a.Elem(), b.Elem()
	}
	if a.Type() != b.Type() {
		return false
	}
	switch a.Kind() {
	case reflect.Map, reflect.Slice:
		return a.Pointer() == b.Pointer() && a.Len() == b.Len()
	case reflect.Struct:
		for i := 0; i < a.NumField(); i++ {
			if !shallowSame(a.Field(i), b.Field(i)) {
				return false
			}
		}
		return true
	case reflect.Float64, reflect.Float32:
		x, y := a.Float(), b.Float()
		return x == y || (x != x && y != y)
	case reflect.Ptr:
		return a.Pointer() == b.Pointer()
	}
	return a.Interface() == b.Interface()
}

// RetainVal records a returned slice (of any element type) and verifies that all earlier ones still
// hold what they held when they were returned.
func (c *Ctx) RetainVal(api string, v interface{}, cas func() interface{}) {
	for _, r := range retainValRing {
		same := r.live.Len() == r.copy.Len()
		for i := 0; same && i < r.copy.Len(); i++ {
			same = shallowSame(r.live.Index(i), r.copy.Index(i))
		}
		if !same {
			var cur interface{}
			if cas != nil {
				cur = cas()
			}
			var first interface{}
			if f, ok := r.cas.(func() interface{}); ok && f != nil {
				first = f()
			}
			c.Violate(r.api, "result-overwritten-by-later-call", "retained-result", map[string]interface{}{"sequence": []interface{}{first, cur}}, nil,
				fmt.Sprintf("the result returned earlier by %s was %s and is now %s after a later call to %s", r.api, short(dump(r.copy.Interface()), 300), short(dump(r.live.Interface()), 300), api))
			retainValRing = nil
			break
		}
	}
	rv := reflect.ValueOf(v)
	if !rv.IsValid() || rv.Kind() != reflect.Slice || rv.Len() == 0 {
		return
	}
	cp := reflect.MakeSlice(rv.Type(), rv.Len(), rv.Len())
	reflect.Copy(cp, rv)
	retainValRing = append(retainValRing, retainedVal{api, rv, cp, cas}) // the case is rendered only if needed
	if len(retainValRing) > 16 {
		retainValRing = retainValRing[1:]
	}
}

// ---- retained trees (Maps updated in place and kept by the caller) ----

type retainedTree struct {
	api  string
	live interface{}
	snap string
	cas  func() interface{}
}

var retainTreeRing []retainedTree

// RetainTree records a tree the caller keeps (a Map after an in-place update) and verifies that all
// earlier ones still hold, deeply, what they held when the call returned.
func (c *Ctx) RetainTree(api string, v interface{}, cas func() interface{}) {
	for _, r := range retainTreeRing {
		if now := dump(r.live); now != r.snap {
			var first, cur interface{}
			if r.cas != nil {
				first = r.cas()
			}
			if cas != nil {
				cur = cas()
			}
			c.Violate(r.api, "result-overwritten-by-later-call", "retained-result", map[string]interface{}{"sequence": []interface{}{first, cur}}, nil,
				fmt.Sprintf("the Map left by an earlier %s was %s and is now %s after a later call to %s", r.api, short(r.snap, 300), short(now, 300), api))
			retainTreeRing = nil
			break
		}
	}
	retainTreeRing = append(retainTreeRing, retainedTree{api, v, dump(v), cas})
	if len(retainTreeRing) > 4 {
		retainTreeRing = retainTreeRing[1:]
	}
}

// ---- a result slice is a result, not a view ----

// sharesBacking reports whether the result slice overlaps the backing array of any list inside recv.
func sharesBacking(result []interface{}, recv interface{}) bool {
	if cap(result) == 0 {
		return false
	}
	lo := reflect.ValueOf(result).Pointer()
	hi := lo + uintptr(cap(result))*unsafe.Sizeof(result[:1][0])
	var walk func(v interface{}) bool
	walk = func(v interface{}) bool {
		switch t := v.(type) {
		case map[string]interface{}:
			for _, e := range t {
				if walk(e) {
					return true
				}
			}
		case []interface{}:
			if cap(t) > 0 {
				a := reflect.ValueOf(t).Pointer()
				b := a + uintptr(cap(t))*unsafe.Sizeof(t[:1][0])
				if a < hi && lo < b {
					return true
				}
			}
			for _, e := range t {
				if walk(e) {
					return true
				}
			}
		}
		return false
	}
	return walk(recv)
}

// NoAlias: the slice a query returns must not be (part of) a list of the receiver - the caller may
// sort it, overwrite its slots or append to it without changing the Map.
func (c *Ctx) NoAlias(api string, result []interface{}, recv interface{}, shape string, cas interface{}, choices []int) bool {
	if sharesBacking(result, recv) {
		c.Violate(api, "result-is-a-view-of-the-receiver", shape, cas, choices, fmt.Sprintf("the slice returned by %s shares its backing array with a list inside the receiver: writing to the result writes to the Map (result %s)", api, short(dump(result), 300)))
		return false
	}
	return true
}
