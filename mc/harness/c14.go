package main

import (
	"encoding/json"
	"fmt"
	"strings"

	mxj "github.com/clbanning/mxj/v2"
	x2jw "github.com/clbanning/mxj/v2/x2j-wrapper"
	rt "github.com/clbanning/mxj/v2/zzverifrt"
)

// C14 — Casting changes only leaf types, predictably, and never yields NaN or Inf.

type c14Case struct {
	Doc string `json:"xml"`
	Cfg Cfg    `json:"cfg"`
	Seq bool   `json:"mapseq"`
	Pol int    `json:"order_policy"`
}

func init() {
	register(&Property{ID: "C14", Run: c14Run, Replay: func(c *Ctx, cas json.RawMessage, ch []int) {
		var k c14Case
		json.Unmarshal(cas, &k)
		rt.OrderPolicy = k.Pol
		c14Check(c, k.Doc, k.Cfg, k.Seq)
		rt.OrderPolicy = rt.PolicySorted
		resetOptions()
	}})
}

// castSpellings: U-CAST.
func castSpellings() []string {
	s := []string{"0", "1", "-1", "+1", "007", "1.0", "1.", ".5", "1e3", "1E-3", "1e400", "-1e400", "0x10", "0x1p-2", "1_0",
		"9223372036854775807", "9223372036854775808", "-9223372036854775808", "-9223372036854775809",
		"18446744073709551615", "18446744073709551616", "+9223372036854775807", "+0", "-0", "+1.5", "-1.7976931348623157e308", "1.7976931348623157e308", "5e-324", "x", "v 1", "1 2", "tr ue", "1,5", "١"}
	// every case variant and signed spelling of nan / inf / infinity
	variants := func(w string) []string {
		var out []string
		n := len(w)
		for mask := 0; mask < 1<<n; mask++ {
			b := []byte(w)
			for i := 0; i < n; i++ {
				if mask&(1<<i) != 0 {
					b[i] = b[i] - 32
				}
			}
			out = append(out, string(b))
		}
		return out
	}
	for _, w := range []string{"nan", "inf"} {
		for _, v := range variants(w) {
			s = append(s, v, "+"+v, "-"+v)
		}
	}
	for _, v := range []string{"infinity", "Infinity", "INFINITY", "iNfInItY", "infinitY"} {
		s = append(s, v, "+"+v, "-"+v)
	}
	// booleans accepted and rejected by ParseBool
	s = append(s, "t", "T", "true", "TRUE", "True", "f", "F", "false", "FALSE", "False", "yes", "tru", "TRue", "truee", "tRUE", "fALSE", "no", "on", "falsee", "T ", "tr")
	return s
}

// c14Walk compares the uncast and the cast decode leaf by leaf.
// key is the Map key the value is stored under; inTextFirst marks text that preceded child elements in an element without attributes.
func c14Walk(c *Ctx, viol func(clause, detail string), uncast, cast interface{}, key, elemKey string, cfg Cfg, seq bool, ambiguousKey bool) bool {
	switch u := uncast.(type) {
	case map[string]interface{}:
		cm, ok := cast.(map[string]interface{})
		if !ok || len(cm) != len(u) {
			viol("structure", fmt.Sprintf("at key %q: uncast=%s cast=%s", key, dump(uncast), dump(cast)))
			return false
		}
		hasAttr, hasChild := false, false
		for k := range u {
			if strings.HasPrefix(k, cfg.AttrPrefix) && cfg.AttrPrefix != "" {
				hasAttr = true
			} else if k != cfg.textK() {
				hasChild = true
			}
		}
		for _, k := range sortedKeys(u) { // a fixed order: the first difference reported must not depend on Go's map order
			uv := u[k]
			cv, ok := cm[k]
			if !ok {
				viol("structure", fmt.Sprintf("key %q missing in the cast decode: uncast=%s cast=%s", k, dump(uncast), dump(cast)))
				return false
			}
			amb := k == cfg.textK() && !hasAttr && hasChild && !cfg.SimpleMap
			if !c14Walk(c, viol, uv, cv, k, key, cfg, seq, amb) {
				return false
			}
		}
		return true
	case []interface{}:
		cl, ok := cast.([]interface{})
		if !ok || len(cl) != len(u) {
			viol("structure", fmt.Sprintf("at key %q: uncast=%s cast=%s", key, dump(uncast), dump(cast)))
			return false
		}
		for i := range u {
			if !c14Walk(c, viol, u[i], cl[i], key, elemKey, cfg, seq, false) {
				return false
			}
		}
		return true
	case string:
		cc := cfg
		cc.Cast = true
		if seq {
			cc.SkipTag = "" // the sequence decoder never consults the skip function
		}
		want := refCast(u, cc, key)
		if deepEq(want, cast) {
			return true
		}
		// (until the fourth bug-hunt round a text that precedes child elements in an element without attributes was
		// allowed to be judged under the element's key as well - what the implementation did; the leaf is stored
		// under the text key, and that is the key the property's "text-key position" and the skip function speak of)
		_ = ambiguousKey
		viol("leaf-cast", fmt.Sprintf("text %q stored under %q: expected %s, got %s", u, key, dump(want), dump(cast)))
		return false
	default:
		// non-string leaf in the uncast decode: only the sequence numbers of MapSeq
		if seq && key == "#seq" && deepEq(uncast, cast) {
			return true
		}
		// ... and the "_seq" numbers IncludeTagSeqNum documents (integers, the same with and without casting)
		if cfg.SeqNum && key == "_seq" && deepEq(uncast, cast) {
			return true
		}
		viol("uncast-non-string", fmt.Sprintf("uncast decode has a non-string leaf %s under %q", dump(uncast), key))
		return false
	}
}

func c14Check(c *Ctx, doc string, cfg Cfg, seq bool) (nontrivial bool) {
	cas := func() interface{} { return c14Case{Doc: doc, Cfg: cfg, Seq: seq, Pol: rt.OrderPolicy} }
	applyCfg(cfg)
	api := "NewMapXml"
	if seq {
		api = "NewMapXmlSeq"
	}
	shape := "finite"
	low := strings.ToLower(doc)
	if strings.Contains(low, "nan") || strings.Contains(low, "inf") {
		shape = "nan-inf-spelling"
	}
	var u, k map[string]interface{}
	var e1, e2 error
	st, pan := protect(func() {
		if seq {
			in1, in2 := []byte(doc), []byte(doc)
			a, e := mxj.NewMapXmlSeq(in1, false)
			b, f := mxj.NewMapXmlSeq(in2, true)
			scribble(in1)
			scribble(in2)
			u, k, e1, e2 = a, b, e, f
		} else {
			in1, in2 := []byte(doc), []byte(doc)
			a, e := mxj.NewMapXml(in1, false)
			b, f := mxj.NewMapXml(in2, true)
			scribble(in1)
			scribble(in2)
			u, k, e1, e2 = a, b, e, f
		}
	})
	c.S.Transitions += 2
	c.S.Validated++
	if pan {
		c.Violate(api, "panic", shape, cas, nil, st)
		return
	}
	if e1 != nil || e2 != nil {
		c.Violate(api, "error", shape, cas, nil, fmt.Sprintf("doc=%q %v %v", doc, e1, e2))
		return
	}
	failed := false
	viol := func(clause, detail string) {
		failed = true
		c.Violate(api, clause, shape, cas, nil, fmt.Sprintf("doc=%q cfg=%+v\n %s\n uncast=%s\n   cast=%s", doc, cfg, detail, dump(u), dump(k)))
	}
	c14Walk(c, viol, u, k, "", "", cfg, seq, false)
	if failed {
		return true
	}
	c.Outcome(dump(k))
	// unless CastNanInf is on, the cast Map can always be converted to JSON
	if !cfg.NanInf {
		var jerr error
		if seq {
			_, jerr = json.Marshal(k)
		} else {
			_, jerr = mxj.Map(k).Json()
		}
		c.S.Transitions++
		if jerr != nil {
			c.Violate(api, "json-of-cast-map", shape, cas, nil, fmt.Sprintf("doc=%q cfg=%+v cast=%s Json error: %v", doc, cfg, dump(k), jerr))
			return true
		}
		if !seq {
			js, werr := x2jw.DocToJson(doc, true)
			mj, _ := mxj.Map(k).Json()
			c.S.Transitions++
			if werr != nil || js != string(mj) {
				c.Violate("x2j-wrapper.DocToJson", "agrees-with-core", shape, cas, nil, fmt.Sprintf("doc=%q: wrapper=%q err=%v core=%q", doc, js, werr, mj))
			}
		}
	}
	return !deepEq(u, k)
}

func c14Run(c *Ctx) {
	mustBeDefault(c)
	c.S.Rule = "cases = (document template, leaf spelling, cast options, skip function, decoder): templates put the spelling in element, attribute, text-key (beside an attribute), text-before-child, text-after-child, list-member, root and sibling positions; spellings = integers incl. 64-bit boundaries, decimal/exponent/hex floats, overflowing numerals, every case variant and signed spelling of nan/inf plus infinity spellings, booleans accepted and rejected by ParseBool, ordinary text; all 16 combinations of cast-to-int/float/bool/NaN-Inf x skip function {none, element key, attribute key, text key} x {simple-as-map off,on} x {Map, MapSeq decoder}, the Map decoder also under IncludeTagSeqNum; plus histories: for 4 templates x every spelling, all 16 cast combinations in descending then ascending order within one process, each with its setters called in every order (up to 24). Oracle: same structure and keys as the uncast decode, uncast leaves are strings, each cast leaf equals the documented cast of its text, Json() of the cast Map succeeds unless CastNanInf is on, x2j-wrapper.DocToJson agrees. non-trivial = casting changed at least one leaf."
	c.S.Assumptions = []string{"the sequence decoder never consults the skip function (documented)"}
	tmpl := []string{
		`<r><k>S</k></r>`, `<r><e k="S"/></r>`, `<r><k x="1">S</k></r>`, `<r><k>S<c/></k></r>`, `<r><k><c/>S</k></r>`,
		`<r><k>S</k><k>S</k></r>`, `<k>S</k>`, `<r><a>1</a><k>S</k><b>true</b></r>`, `<r k="S" x="2">S</r>`, `<r><k x="S">S<c>S</c></k></r>`,
	}
	sp := castSpellings()
	if c.Shard == 0 {
		c.Count("spellings", int64(len(sp)))
	}
	for bits := 0; bits < 16; bits++ {
		for _, skip := range []string{"", "k", "-k", "#text"} {
			for _, sm := range []bool{false, true} {
				cfg := Cfg{AttrPrefix: "-", KeyPrefix: "#", CastInt: bits&1 != 0, NoFloat: bits&2 != 0, NoBool: bits&4 != 0, NanInf: bits&8 != 0, SkipTag: skip, SimpleMap: sm}
				for _, seq := range []bool{false, true} {
					if seq && (sm || skip == "-k") && !c.Thorough {
						continue
					}
					for ti, t := range tmpl {
						for si, s := range sp {
							if !c.Mine() {
								continue
							}
							doc := strings.ReplaceAll(t, "S", xmlEsc(s, true))
							if !seq && !sm && skip == "" {
								// the same under IncludeTagSeqNum: the structure the option prescribes is the same with and without casting
								// (without a skip function: which key the function is asked about for a simple element that the
								// option wraps into {"#text","_seq"} - the element's tag or the text key - is stated nowhere, and
								// the first version of this pass, which demanded the text key in the thorough tier, raised a false alarm)
								cfgN := cfg
								cfgN.SeqNum = true
								c.S.States++
								c.S.Evaluations++
								c.S.Schedules++
								rt.OrderPolicy = rt.PolicySorted
								c14Check(c, doc, cfgN, false)
							}
							c.S.States++
							c.S.Evaluations++
							c.S.Schedules++
							rt.OrderPolicy = rt.PolicySorted
							if (ti+si)%2 == 1 {
								rt.OrderPolicy = rt.PolicyReverse
							}
							if c14Check(c, doc, cfg, seq) {
								c.S.Nontrivial++
								c.Sample(map[string]interface{}{"xml": doc, "cfg": cfg, "mapseq": seq})
							}
						}
					}
				}
			}
		}
	}
	// histories: one worker owns a (template, spelling) pair and decodes it under every cast combination in
	// descending and then ascending order (a combination meets what earlier ones left behind), each
	// combination with its setters called in every order
	rt.OrderPolicy = rt.PolicySorted
	var order []int
	for b := 15; b >= 0; b-- {
		order = append(order, b)
	}
	for b := 0; b < 16; b++ {
		order = append(order, b)
	}
	for _, t := range tmpl[:4] {
		for _, s := range sp {
			if !c.Mine() {
				continue
			}
			doc := strings.ReplaceAll(t, "S", xmlEsc(s, true))
			c.S.States++
			c.S.Evaluations++
			for _, bits := range order {
				n := 0
				for b := 0; b < 4; b++ {
					if bits&(1<<b) != 0 {
						n++
					}
				}
				for perm := 0; perm < factorial(n); perm++ {
					cfg := Cfg{AttrPrefix: "-", KeyPrefix: "#", CastInt: bits&1 != 0, NoFloat: bits&2 != 0, NoBool: bits&4 != 0, NanInf: bits&8 != 0, CastPerm: perm}
					for _, seq := range []bool{false, true} {
						c.S.Schedules++
						c14Check(c, doc, cfg, seq)
					}
				}
			}
		}
	}
	resetOptions()
}
