package main

import (
	"encoding/json"
	"fmt"
	"regexp"
	"strconv"
	"strings"

	mxj "github.com/clbanning/mxj/v2"
	rt "github.com/clbanning/mxj/v2/zzverifrt"
)

// C04 — MapSeq round trip preserves order, attributes, comments and instructions.

type c04Case struct {
	Doc  *XElem `json:"doc"`
	Text string `json:"xml"`
	Path string `json:"path"` // Xml | XmlIndent | BeautifyXml | Beautify-Formatted-Xml | Xml-twice
	Pol  int    `json:"order_policy"`
}

func init() {
	register(&Property{ID: "C04", Run: c04Run, Replay: func(c *Ctx, cas json.RawMessage, ch []int) {
		var k c04Case
		json.Unmarshal(cas, &k)
		applyCfg(Cfg{AttrPrefix: "-", KeyPrefix: "#", EscEnc: true})
		run := func() { c04Check(c, k.Doc, k.Path, ch) }
		if len(ch) > 0 {
			rt.OrderPolicy = rt.PolicyChoose
			runWith(ch, run)
		} else {
			rt.OrderPolicy = k.Pol
			run()
		}
		rt.OrderPolicy = rt.PolicySorted
		resetOptions()
	}})
}

var gtBlankLt = regexp.MustCompile(">[\\n\\t\\r ]+<")

func c04Shape(doc *XElem) string {
	// a comment, instruction or directive ahead of the element's text (no child element precedes the text)
	for _, e := range doc.elems() {
		for i, it := range e.Items {
			if it.Kind == 't' && i > 0 {
				return "comment-pi-or-directive-before-text"
			}
		}
	}
	// a comment, PI, directive or CDATA section whose text contains '>' blanks '<': the byte-level
	// formatter of NewMapFormattedXmlSeq cannot tell it from inter-element white space
	for _, e := range doc.elems() {
		for _, it := range e.Items {
			if (it.Kind != 'e' && it.Kind != 't' || it.Kind == 't' && it.CData) && gtBlankLt.MatchString(it.Text) {
				return "gt-blanks-lt-inside-comment-or-cdata"
			}
		}
	}
	var f []string
	mixed, misc, ns, rep := false, false, false, false
	for _, e := range doc.elems() {
		hasT, hasOther := false, false
		names := map[string]bool{}
		for _, it := range e.Items {
			switch it.Kind {
			case 't':
				if strings.TrimSpace(it.Text) != "" {
					hasT = true
				}
			case 'e':
				hasOther = true
				if names[it.Elem.qname()] {
					rep = true
				}
				names[it.Elem.qname()] = true
			default:
				hasOther = true
				misc = true
			}
		}
		if hasT && hasOther {
			mixed = true
		}
		if e.Prefix != "" {
			ns = true
		}
	}
	if mixed {
		f = append(f, "text-before-children")
	}
	if misc {
		f = append(f, "comment-pi-directive")
	}
	if ns {
		f = append(f, "namespaced")
	}
	if rep {
		f = append(f, "repeated-siblings")
	}
	if len(f) == 0 {
		return "plain"
	}
	return strings.Join(f, ",")
}

func c04Check(c *Ctx, doc *XElem, path string, choices []int) (nontrivial bool) {
	xmlText := renderDoc(doc, rvDefault)
	cas := func() interface{} { return c04Case{Doc: doc, Text: xmlText, Path: path, Pol: rt.OrderPolicy} }
	shape := c04Shape(doc)
	var out []byte
	var err error
	st, pan := protect(func() {
		switch path {
		case "Xml", "XmlIndent", "Xml-twice", "Xml-cast":
			var ms mxj.MapSeq
			inBuf := []byte(xmlText)
			if path == "Xml-cast" {
				ms, err = mxj.NewMapXmlSeq(inBuf, true) // the decoder's cast flag: numbers and booleans become Go values
			} else {
				ms, err = mxj.NewMapXmlSeq(inBuf)
			}
			scribble(inBuf)
			if err != nil {
				return
			}
			switch path {
			case "Xml", "Xml-cast":
				out, err = ms.Xml()
			case "XmlIndent":
				out, err = ms.XmlIndent("", "  ")
			case "Xml-twice":
				// encoding must not consume the MapSeq: a second encoding gives the same stream
				if _, err = ms.XmlIndent("", "\t"); err != nil {
					return
				}
				out, err = ms.Xml()
			}
		case "BeautifyXml":
			inBuf := []byte(xmlText)
			out, err = mxj.BeautifyXml(inBuf, " ", "  ")
			scribble(inBuf)
		case "Beautify-Formatted-Xml":
			var b []byte
			b, err = mxj.BeautifyXml([]byte(xmlText), "", "  ")
			if err != nil {
				return
			}
			var ms mxj.MapSeq
			if len(xmlText)%2 == 0 {
				ms, err = mxj.NewMapFormattedXmlSeq(b, false) // an explicit false means the same as no argument
			} else {
				ms, err = mxj.NewMapFormattedXmlSeq(b)
			}
			scribble(b)
			if err != nil {
				return
			}
			out, err = ms.Xml()
		}
	})
	c.S.Transitions += 2
	c.S.Validated++
	if pan {
		c.Violate(path, "panic", shape, cas, choices, fmt.Sprintf("xml=%q\n%s", xmlText, st))
		return
	}
	if err != nil {
		c.Violate(path, "error", shape, cas, choices, fmt.Sprintf("xml=%q err=%v", xmlText, err))
		return
	}
	c.Retain(path, out, cas)
	// expected stream from the abstract tree; text is trimmed (documented), blank runs are dropped for indented forms
	exact := path == "Xml" || path == "Xml-twice" || path == "Xml-cast"
	var exp []string
	treeTokens(doc, !exact, true, &exp)
	// output side: text is NOT trimmed, except that the indented forms may add white space to a
	// text run that is followed by a child item (mixed content); a text-only element is exact
	got, terr := rawTokens(out, !exact, false)
	if terr == nil && !exact {
		for i, g := range got {
			if strings.HasPrefix(g, "T:") {
				alone := i > 0 && strings.HasPrefix(got[i-1], "S:") && i+1 < len(got) && strings.HasPrefix(got[i+1], "E:")
				if !alone {
					got[i] = "T:" + strings.Trim(g[2:], "\t\r\b\n ")
				}
			}
		}
	}
	if path == "Xml-cast" && terr == nil {
		// a cast leaf is written in Go's spelling of the value (1.50 as 1.5): both sides are read as the value
		// their text denotes; anything else - text dropped, moved or changed - is still a difference
		canon := func(ts []string) {
			for i, g := range ts {
				if strings.HasPrefix(g, "T:") {
					ts[i] = "T:" + fmt.Sprintf("%v", refCast(g[2:], Cfg{Cast: true}, ""))
				}
			}
		}
		canon(exp)
		canon(got)
	}
	if terr != nil || !eqStrings(exp, got) {
		c.Violate(path, "token-stream", shape, cas, choices, fmt.Sprintf("xml=%q\n output=%q\n expected=%v\n   actual=%v err=%v", xmlText, out, exp, got, terr))
		return true
	}
	if path == "XmlIndent" || path == "BeautifyXml" {
		// "up to inter-element whitespace": every tag, comment, instruction and directive is byte for byte
		// the one the compact encoder writes
		var compact []byte
		protect(func() {
			if ms, e := mxj.NewMapXmlSeq([]byte(xmlText)); e == nil {
				compact, _ = ms.Xml()
			}
		})
		if a, b := markupSpans(compact), markupSpans(out); !eqStrings(a, b) {
			c.Violate(path, "markup-differs-from-compact", shape, cas, choices, fmt.Sprintf("xml=%q\n compact=%q\n  output=%q", xmlText, compact, out))
			return true
		}
	}
	c.Outcome(string(out))
	return true
}

// c04AttrRespelled: an attribute value that the cast flag would write back in another spelling (1.50 as 1.5);
// such documents are left out of the cast path, whose oracle compares start tags verbatim.
func c04AttrRespelled(doc *XElem) bool {
	for _, e := range doc.elems() {
		for _, a := range e.Attrs {
			if fmt.Sprintf("%v", refCast(a.Value, Cfg{Cast: true}, "")) != a.Value {
				return true
			}
		}
	}
	return false
}

// c04Decos: attributes in every order come from pairs of attribute decorations; items at every position.
func c04Decos(base *XElem, thorough bool) []Deco {
	var ds []Deco
	els := base.elems()
	vals := []string{"v", "a&b<c>", "\"q\" 'r'", "é", " s ", "\u00a0t\u2028", "1.50", "\u010dx\u2020"}
	for i, e := range els {
		nk := len(e.Items)
		for _, an := range []string{"x", "y", "n:x", "xmlns:q"} {
			for vi, av := range vals {
				if vi > 1 && an != "x" {
					continue
				}
				ds = append(ds, Deco{Kind: 'a', El: i, Name: an, Value: av})
			}
		}
		// text alone or before the child items: position 0 only
		for _, tv := range vals {
			ds = append(ds, Deco{Kind: 't', El: i, Pos: 0, Value: tv})
		}
		ds = append(ds, Deco{Kind: 't', El: i, Pos: 0, Value: "x<y", CData: true})
		ds = append(ds, Deco{Kind: 't', El: i, Pos: 0, Value: "x<y", Split: 1}, Deco{Kind: 't', El: i, Pos: 0, Value: "45", Split: -1})
		for pos := 0; pos <= nk; pos++ {
			ds = append(ds, Deco{Kind: 'c', El: i, Pos: pos, Value: " note "})
			if pos == 0 {
				// commented-out markup: "> <" inside a comment is not inter-element white space
				ds = append(ds, Deco{Kind: 'c', El: i, Pos: pos, Value: " <o>1</o> <o>2</o> "})
				ds = append(ds, Deco{Kind: 't', El: i, Pos: 0, Value: "x> <y", CData: true})
				// multi-line content with an angle bracket at a line end / line start (only one of the two: not the
				// '>' blanks '<' shape of the recorded finding)
				ds = append(ds, Deco{Kind: 'c', El: i, Pos: pos, Value: " a =>\n   b "}, Deco{Kind: 'c', El: i, Pos: pos, Value: " l1\n  <o/> "})
				ds = append(ds, Deco{Kind: 't', El: i, Pos: 0, Value: "x =>\n  y", CData: true}, Deco{Kind: 'p', El: i, Pos: pos, Value: "a>\n b"})
			}
			ds = append(ds, Deco{Kind: 'p', El: i, Pos: pos, Value: "do=\"it\""})
			ds = append(ds, Deco{Kind: 'd', El: i, Pos: pos, Value: "ENTITY e \"v\""})
		}
		for _, rn := range []string{"n:a", "m:a", "B", "a-b"} {
			ds = append(ds, Deco{Kind: 'n', El: i, Name: rn})
		}
	}
	return ds
}

// c04InDomain: text first among the items of its element; at most one comment, directive and PI per element.
func c04InDomain(doc *XElem) bool {
	for _, e := range doc.elems() {
		cnt := map[byte]int{}
		for i, it := range e.Items {
			cnt[it.Kind]++
			if it.Kind == 't' && i != 0 {
				// text stands alone or before the child elements: comments, instructions and directives may precede it
				for _, prev := range e.Items[:i] {
					if prev.Kind == 'e' {
						return false
					}
				}
			}
		}
		if cnt['t'] > 1 || cnt['c'] > 1 || cnt['p'] > 1 || cnt['d'] > 1 {
			return false
		}
		seen := map[string]bool{}
		for _, a := range e.Attrs {
			if seen[a.qname()] {
				return false
			}
			seen[a.qname()] = true
		}
	}
	return true
}

func c04Run(c *Ctx) {
	mustBeDefault(c)
	c.S.Rule = "cases = (document, path): documents are all element trees with <= N elements (sibling names over {a,b}, every interleaving) with <= D decorations from: attributes (plain, namespaced, xmlns declaration; pairs give both orders), one text run alone or first (plain and CDATA; special characters, quotes, non-ASCII, blanks), one comment / directive / processing instruction at every position (incl. multi-line ones with an angle bracket at a line end or line start), renamed elements (two namespace prefixes on the same local name, case, hyphen); a wide family (one element with 9-13, 33, 65, 99-101, 257 and 1001 sequenced members in the sibling patterns a*, (a,b)*, (a,a,b)*, with and without leading text, a comment and a processing instruction among them, at the root and one level down; 9-13 attributes on one element); paths NewMapXmlSeq->Xml, ->XmlIndent, BeautifyXml, BeautifyXml->NewMapFormattedXmlSeq->Xml, and XmlIndent followed by Xml on the same MapSeq. Oracle: the raw token stream of the output (encoding/xml RawToken) equals the stream the abstract tree denotes - exactly for Xml, modulo whitespace-only character data for the indented forms; text compared after the documented trimming. XMLEscapeChars(true). Ascending/descending map order; E-choice bound 1 on the smaller documents. non-trivial = round trip executed."
	c.S.Assumptions = []string{"text is the first item of its element (property: alone or before its child elements)", "documents without prolog (the sequence decoder documents a no-root result for leading comments/PIs)"}
	n1, n2, ech := 4, 3, 3
	if c.Thorough {
		n1, n2, ech = 5, 4, 3
	}
	paths := []string{"Xml", "XmlIndent", "BeautifyXml", "Beautify-Formatted-Xml", "Xml-twice", "Xml-cast"}
	applyCfg(Cfg{AttrPrefix: "-", KeyPrefix: "#", EscEnc: true})
	runDoc := func(doc *XElem) {
		for _, p := range paths {
			if p == "Xml-cast" && c04AttrRespelled(doc) {
				continue
			}
			if !c.Mine() {
				continue
			}
			c.S.States++
			c.S.Evaluations++
			rt.OrderPolicy = rt.PolicySorted
			nt := c04Check(c, doc, p, nil)
			rt.OrderPolicy = rt.PolicyReverse
			c04Check(c, doc, p, nil)
			c.S.Schedules += 2
			if nt {
				c.S.Nontrivial++
				c.Sample(map[string]interface{}{"xml": renderDoc(doc, rvDefault), "path": p})
			}
			if len(doc.elems()) <= ech && (p == "Xml" || p == "XmlIndent") {
				rt.OrderPolicy = rt.PolicyChoose
				ex := &Explorer{Bound: 1, MaxExecs: 3000, Run: func() { c04Check(c, doc, p, curExec.prefix) }, Check: func(x *Exec) bool { return true }}
				ex.Explore()
				c.S.Schedules += ex.Execs
				if ex.Diverged != "" {
					c.Broken("C04: %s", ex.Diverged)
				}
				c.S.BoundCompleted = 1
			}
			rt.OrderPolicy = rt.PolicySorted
		}
	}
	for n := 1; n <= n1; n++ {
		for _, base := range baseTrees(n, "r", []string{"a", "b"}, 3) {
			runDoc(base)
			ds := c04Decos(base, c.Thorough)
			for _, d := range ds {
				if doc, ok := applyDecos(base, []Deco{d}); ok && c04InDomain(doc) {
					runDoc(doc)
				}
			}
			if n <= n2 {
				for i := range ds {
					for j := range ds {
						if i == j {
							continue
						}
						// ordered pairs: attribute order matters
						if ds[i].Kind != 'a' && j < i && !(ds[j].Kind == 't' && ds[i].Kind != 't' && ds[i].Kind != 'n' && ds[i].El == ds[j].El && ds[i].Pos == 0) {
							continue // (besides attribute pairs, the order matters for a comment / PI / directive put ahead of the text)
						}
						if doc, ok := applyDecos(base, []Deco{ds[i], ds[j]}); ok && c04InDomain(doc) {
							runDoc(doc)
						}
					}
				}
			}
		}
	}
	// wide family: one element (the root, or the only child of the root) with 9..13, 33 and 65 sequenced
	// members - child elements in the patterns a* / (a,b)* / (a,a,b)*, optionally leading text, optionally a
	// comment and a processing instruction in the middle - and elements with 9..13 attributes
	for _, wd := range c04Wide() {
		runDoc(wd)
	}
	resetOptions()
}

func c04Wide() []*XElem {
	var out []*XElem
	mk := func(k, pat int, text, items, nested bool) *XElem {
		e := &XElem{Local: "w"}
		if text {
			e.Items = append(e.Items, XItem{Kind: 't', Text: "t"})
		}
		for i := 0; i < k; i++ {
			if items && i == k/2 {
				e.Items = append(e.Items, XItem{Kind: 'c', Text: " note "}, XItem{Kind: 'p', Target: "pi", Text: "do=\"it\""})
			}
			nm := "a"
			if pat == 1 && i%2 == 1 || pat == 2 && i%3 == 2 {
				nm = "b"
			}
			ch := &XElem{Local: nm, Items: []XItem{{Kind: 't', Text: "v" + strconv.Itoa(i)}}}
			e.Items = append(e.Items, XItem{Kind: 'e', Elem: ch})
		}
		if nested {
			return &XElem{Local: "r", Items: []XItem{{Kind: 'e', Elem: e}}}
		}
		return e
	}
	for _, k := range []int{9, 10, 11, 12, 13, 33, 65, 99, 100, 101, 257, 1001} {
		for pat := 0; pat < 3; pat++ {
			for _, text := range []bool{false, true} {
				for _, items := range []bool{false, true} {
					for _, nested := range []bool{false, true} {
						if k > 13 && (items || nested) {
							continue
						}
						out = append(out, mk(k, pat, text, items, nested))
					}
				}
			}
		}
	}
	for _, k := range []int{9, 10, 11, 12, 13} {
		for _, kids := range []int{0, 2} {
			e := mk(kids, 1, false, false, false)
			for i := 0; i < k; i++ {
				e.Attrs = append(e.Attrs, XAttr{Local: "x" + string(rune('a'+(i*7)%k)) + strconv.Itoa(i), Value: "v" + strconv.Itoa(i)})
			}
			out = append(out, e)
		}
	}
	return out
}
