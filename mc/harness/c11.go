package main

import (
	"encoding/json"
	"fmt"
	"strconv"
	"strings"

	mxj "github.com/clbanning/mxj/v2"
	rt "github.com/clbanning/mxj/v2/zzverifrt"
)

// C11 — SetValueForPath, Remove, RenameKey touch exactly one entry or fail cleanly.

type c11Case struct {
	Map  json.RawMessage `json:"map"`
	Op   string          `json:"op"` // set | remove | rename
	Path string          `json:"path"`
	Name string          `json:"new_name,omitempty"`
	Pol  int             `json:"order_policy"`
	// operations applied (and checked) on the same Map before this one
	Prefix []c11Op `json:"earlier_operations_on_this_map,omitempty"`
}

type c11Op struct {
	Op   string `json:"op"`
	Path string `json:"path"`
	Name string `json:"new_name,omitempty"`
}

// c11Hist: set while a sequence of operations runs on one Map (initial Map and the operations so far).
var c11Hist *c11HistT

type c11HistT struct {
	map0 string
	ops  []c11Op
}

func init() {
	register(&Property{ID: "C11", Run: c11Run, Replay: func(c *Ctx, cas json.RawMessage, ch []int) {
		var k c11Case
		json.Unmarshal(cas, &k)
		m := fromJSON(string(k.Map)).(map[string]interface{})
		rt.OrderPolicy = k.Pol
		if len(k.Prefix) > 0 {
			c11Hist = &c11HistT{map0: string(k.Map)}
			for _, o := range k.Prefix {
				c11Check(c, m, o.Op, o.Path, o.Name)
				c11Hist.ops = append(c11Hist.ops, o)
			}
		}
		c11Check(c, m, k.Op, k.Path, k.Name)
		c11Hist = nil
		rt.OrderPolicy = rt.PolicySorted
	}})
}

type diffEntry struct {
	loc    string
	kind   string // added | removed | changed
	before interface{}
	after  interface{}
}

func treeDiff(before, after interface{}, loc string, out *[]diffEntry) {
	bm, bok := before.(map[string]interface{})
	am, aok := after.(map[string]interface{})
	if bok && aok {
		for _, k := range sortedKeys(bm) {
			if av, ok := am[k]; ok {
				treeDiff(bm[k], av, loc+"/"+k, out)
			} else {
				*out = append(*out, diffEntry{loc + "/" + k, "removed", bm[k], nil})
			}
		}
		for _, k := range sortedKeys(am) {
			if _, ok := bm[k]; !ok {
				*out = append(*out, diffEntry{loc + "/" + k, "added", nil, am[k]})
			}
		}
		return
	}
	bl, blok := before.([]interface{})
	al, alok := after.([]interface{})
	if blok && alok && (bl == nil) != (al == nil) {
		*out = append(*out, diffEntry{loc, "changed", before, after})
		return
	}
	if blok && alok && len(bl) == len(al) {
		for i := range bl {
			treeDiff(bl[i], al[i], loc+"/#"+strconv.Itoa(i), out)
		}
		return
	}
	if !deepEq(before, after) {
		*out = append(*out, diffEntry{loc, "changed", before, after})
	}
}

// strictParent walks keys through nested maps only; returns the map containing the last key.
func strictParent(m map[string]interface{}, keys []string) (map[string]interface{}, bool) {
	cur := m
	for _, k := range keys[:len(keys)-1] {
		nx, ok := cur[k].(map[string]interface{})
		if !ok {
			return nil, false
		}
		cur = nx
	}
	return cur, true
}

func c11Check(c *Ctx, m map[string]interface{}, op, path, newName string) (nontrivial bool) {
	before := deepCopy(m).(map[string]interface{})
	mv := mxj.Map(m)
	opName := op
	cas := func() interface{} {
		if c11Hist != nil {
			return c11Case{Map: json.RawMessage(c11Hist.map0), Prefix: append([]c11Op(nil), c11Hist.ops...), Op: opName, Path: path, Name: newName, Pol: rt.OrderPolicy}
		}
		return c11Case{Map: json.RawMessage(jsonOf(before)), Op: opName, Path: path, Name: newName, Pol: rt.OrderPolicy}
	}
	keys := strings.Split(path, ".")
	last := keys[len(keys)-1]
	api := map[string]string{"set": "Map.SetValueForPath", "remove": "Map.Remove", "rename": "Map.RenameKey"}[op]
	// strict (nested maps only) applicability
	sp, strict := strictParent(before, keys)
	_, lastPresent := sp[last]
	shape := "through-maps"
	if !strict {
		shape = "not-through-maps"
	}
	var newV interface{} = "NEW"
	switch op {
	case "set-map":
		newV, op = map[string]interface{}{"nk": "NEW"}, "set"
	case "set-list":
		newV, op = []interface{}{"NEW", 1.0}, "set"
	}
	api = map[string]string{"set": "Map.SetValueForPath", "remove": "Map.Remove", "rename": "Map.RenameKey"}[op]
	var err error
	rt.Unfreeze()
	rt.Freeze(m)
	st, pan := protect(func() {
		switch op {
		case "set":
			err = mv.SetValueForPath(deepCopy(newV), path)
		case "remove":
			err = mv.Remove(path)
		case "rename":
			err = mv.RenameKey(path, newName)
		}
	})
	writes := append([]string(nil), rt.FrozenWrites...)
	rt.Unfreeze()
	c.S.Transitions++
	detail := func(what string) string {
		return fmt.Sprintf("%s\n op=%s path=%q newName=%q err=%v\n before=%s\n  after=%s", what, op, path, newName, err, jsonOf(before), jsonOf(map[string]interface{}(mv)))
	}
	if pan {
		c.Violate(api, "panic", shape, cas, nil, detail(st))
		return
	}
	var diffs []diffEntry
	treeDiff(before, map[string]interface{}(mv), "", &diffs)
	c.Outcome(fmt.Sprintf("%s|%v|%s", op, err != nil, dump(map[string]interface{}(mv))))
	if err != nil {
		if len(diffs) > 0 || len(writes) > 0 {
			c.Violate(api, "modified-on-failure", shape, cas, nil, detail(fmt.Sprintf("returned an error but the Map was written (%d differences, monitor: %v)", len(diffs), writes)))
			return
		}
		// liveness on the nested-map domain
		switch op {
		case "set":
			if strict {
				c.Violate(api, "refused-applicable", shape, cas, nil, detail("parent is a map reached through nested maps, yet the call failed"))
			}
		case "remove":
			if strict && lastPresent {
				c.Violate(api, "refused-applicable", shape, cas, nil, detail("path exists through nested maps, yet the call failed"))
			}
		case "rename":
			_, sib := sp[newName]
			// a new name that contains path syntax may be refused: the library reads it as a path when
			// it looks for the sibling, and a clean refusal is all the property asks of a call it declines
			if strict && lastPresent && !sib && !strings.ContainsAny(newName, ".[") {
				c.Violate(api, "refused-applicable", shape, cas, nil, detail("path exists through nested maps and the new name is free, yet the call failed"))
			}
		}
		return false
	}
	// success: post-condition + frame
	switch op {
	case "set":
		if len(diffs) == 0 {
			// documented no-op: parent value is null
			pv, perr := mxj.Map(before).ValueForPath(strings.Join(keys[:len(keys)-1], "."))
			if len(keys) > 1 && perr == nil && pv == nil {
				return false
			}
			// the entry already held an equal value (reached in operation sequences)
			if sp != nil && strict && lastPresent && deepEq(sp[last], newV) {
				return false
			}
			c.Violate(api, "no-effect", shape, cas, nil, detail("returned nil but nothing was set and the parent is not null"))
			return
		}
		// reference edit: the first value the parent path denotes must be a map; set the key there
		want := deepCopy(before).(map[string]interface{})
		var ploc *string
		if len(keys) == 1 {
			e := ""
			ploc = &e
		} else {
			refLocs(want, "", keys[:len(keys)-1], false, func(loc string, val interface{}) {
				if ploc == nil {
					l := loc
					ploc = &l
				}
			})
		}
		okSet := false
		if ploc != nil {
			if pm, ok := atLoc(want, *ploc).(map[string]interface{}); ok {
				pm[last] = deepCopy(newV)
				okSet = true
			}
		}
		if !okSet || !deepEq(map[string]interface{}(mv), want) {
			c.Violate(api, "frame", shape, cas, nil, detail(fmt.Sprintf("expected exactly the entry %q of the first value the parent path denotes set to the new value; expected Map %s; differences: %+v", last, dump(want), diffs)))
			return
		}
		v, e := mv.ValueForPath(path)
		c.S.Transitions++
		want1 := newV
		if l, isList := newV.([]interface{}); isList {
			want1 = l[0] // a final list is returned as its members
		}
		if e != nil || !deepEq(v, want1) {
			c.Violate(api, "postcondition", shape, cas, nil, detail(fmt.Sprintf("ValueForPath afterwards = %s, %v", dump(v), e)))
		}
	case "remove":
		if !strict && len(diffs) > 0 {
			// Remove and RenameKey walk through nested maps only: a path that does not lead through maps to its
			// last key (a scalar, list or typed value on the way, a missing key) cannot be applied and must fail
			// without touching the Map - whatever entry of the same name may exist elsewhere
			c.Violate(api, "frame", shape, cas, nil, detail(fmt.Sprintf("the path does not lead through nested maps to an entry, yet the call succeeded and changed the Map: %+v", diffs)))
			return
		}
		if len(diffs) != 1 || diffs[0].kind != "removed" || !strings.HasSuffix(diffs[0].loc, "/"+last) {
			c.Violate(api, "frame", shape, cas, nil, detail(fmt.Sprintf("expected exactly one entry %q removed; differences: %+v", last, diffs)))
			return
		}
		if strict && diffs[0].loc != "/"+strings.Join(keys, "/") {
			c.Violate(api, "frame", shape, cas, nil, detail("removed "+diffs[0].loc+" instead of /"+strings.Join(keys, "/")))
			return
		}
		if strict {
			ex, _ := mv.Exists(path)
			c.S.Transitions++
			if ex {
				c.Violate(api, "postcondition", shape, cas, nil, detail("path still exists"))
			}
		}
	case "rename":
		if !strict && len(diffs) > 0 {
			c.Violate(api, "frame", shape, cas, nil, detail(fmt.Sprintf("the path does not lead through nested maps to an entry, yet the call succeeded and changed the Map: %+v", diffs)))
			return
		}
		var rem, add *diffEntry
		ok := len(diffs) == 2
		if ok {
			for i := range diffs {
				switch diffs[i].kind {
				case "removed":
					rem = &diffs[i]
				case "added":
					add = &diffs[i]
				}
			}
			ok = rem != nil && add != nil
		}
		if ok {
			rp, rk := lastSeg(rem.loc)
			ap, ak := lastSeg(add.loc)
			ok = rp == ap && rk == last && ak == newName && deepEq(rem.before, add.after)
			if ok && strict && rem.loc != "/"+strings.Join(keys, "/") {
				ok = false
			}
		}
		if !ok {
			c.Violate(api, "frame", shape, cas, nil, detail(fmt.Sprintf("expected the value moved unchanged from %q to %q in the same map; differences: %+v", last, newName, diffs)))
			return
		}
	}
	return true
}

func c11Run(c *Ctx) {
	mustBeDefault(c)
	c.S.Rule = "cases = (Map, operation, path[, new name]): every Map template with <= N nodes over keys {a,ab,k}, leaves {string, null}, no empty lists (plus Maps with <= N-1 nodes that hold empty-string values); operations SetValueForPath (string, map and list values) / Remove / RenameKey; all dot-paths of 1..3 segments over {a,b,k,z}; new names {a,b,k,z}. Oracle on a deep copy taken before the call: on error the Map is unchanged (structural diff and write monitor on the frozen receiver); on success exactly one entry set / removed / moved within its map plus the stated post-condition; applicable operations on the nested-map domain must succeed; rename onto an existing sibling (incl. top level and null-valued siblings) must be refused. Ascending and descending map order. Plus every sequence of 3 operations (set / remove / rename to z / rename to ab on paths {a, ab, a.ab, a.ab.k, z}) on one Map, for every nested-map template with <= 4 nodes, with the same oracle at every step. non-trivial = the operation succeeded and changed the Map."
	c.S.Assumptions = []string{"SetValueForPath below a null parent is the documented no-op"}
	n := 5
	if c.Thorough {
		n = 6
	}
	var paths []string
	seqs([]string{"a", "ab", "k", "z"}, 3, func(s []string) { paths = append(paths, strings.Join(s, ".")) })
	g := newGen(GenP{Keys: []string{"a", "ab", "k"}, MaxList: 3, MaxKeys: 3, EmptyList: false, EmptyMap: true, ListInList: true, Leaves: []interface{}{"v", nullLeaf{}}})
	type opn struct{ op, name string }
	ops := []opn{{"set", ""}, {"set-map", ""}, {"set-list", ""}, {"remove", ""}, {"rename", "a"}, {"rename", "ab"}, {"rename", "z"}}
	g.rootMaps(n, func(t *T) {
		for _, p := range paths {
			for _, o := range ops {
				if !c.Mine() {
					continue
				}
				c.S.States++
				c.S.Evaluations++
				for _, pol := range []int{rt.PolicySorted, rt.PolicyReverse} {
					rt.OrderPolicy = pol
					m := inst(t, nil).(map[string]interface{})
					nt := c11Check(c, m, o.op, p, o.name)
					c.S.Schedules++
					c.S.Validated++
					if nt && pol == rt.PolicySorted {
						c.S.Nontrivial++
						c.Sample(map[string]interface{}{"map": json.RawMessage(jsonOf(inst(t, nil))), "op": o.op, "path": p, "new_name": o.name})
					}
				}
				rt.OrderPolicy = rt.PolicySorted
			}
		}
	})
	// empty-string values (what an empty XML element decodes to) beside the addressed keys
	ge := newGen(GenP{Keys: []string{"a", "ab", "k"}, MaxList: 2, MaxKeys: 3, EmptyList: false, EmptyMap: true, ListInList: false, Leaves: []interface{}{"v", ""}})
	ge.rootMaps(n-1, func(t *T) {
		hasEmpty := strings.Contains(jsonOf(inst(t, nil)), `""`)
		if !hasEmpty {
			return
		}
		for _, p := range paths {
			for _, o := range ops {
				if !c.Mine() {
					continue
				}
				c.S.States++
				c.S.Evaluations++
				for _, pol := range []int{rt.PolicySorted, rt.PolicyReverse} {
					rt.OrderPolicy = pol
					if c11Check(c, inst(t, nil).(map[string]interface{}), o.op, p, o.name) && pol == rt.PolicySorted {
						c.S.Nontrivial++
					}
					c.S.Schedules++
					c.S.Validated++
				}
				rt.OrderPolicy = rt.PolicySorted
			}
		}
	})
	// multi-byte keys, one a byte-prefix of another (paths are cut at byte offsets)
	gmb := newGen(GenP{Keys: []string{"\u00e9", "\u00e9a", "\u4e2d"}, MaxList: 2, MaxKeys: 3, EmptyList: false, EmptyMap: true, ListInList: false, Leaves: []interface{}{"v"}})
	var mbPaths []string
	seqs([]string{"\u00e9", "\u00e9a", "\u4e2d", "z"}, 3, func(s []string) { mbPaths = append(mbPaths, strings.Join(s, ".")) })
	gmb.rootMaps(4, func(t *T) {
		for _, p := range mbPaths {
			for _, o := range []opn{{"set", ""}, {"remove", ""}, {"rename", "\u00e9"}, {"rename", "\u00e9a"}, {"rename", "z"}} {
				if !c.Mine() {
					continue
				}
				c.S.States++
				c.S.Evaluations++
				for _, pol := range []int{rt.PolicySorted, rt.PolicyReverse} {
					rt.OrderPolicy = pol
					c11Check(c, inst(t, nil).(map[string]interface{}), o.op, p, o.name)
					c.S.Schedules++
					c.S.Validated++
				}
				rt.OrderPolicy = rt.PolicySorted
			}
		}
	})
	// new names that look like path syntax, beside siblings literally so named (JSON keys may contain '.' and '[')
	for _, js := range []string{`{"a":{"k":"v","k.x":"w","ab":"u"},"k":{"x":"t"}}`, `{"a":{"k":"v","ab[0]":"w","ab":["u"]}}`, `{"k":"v","k.x":"w"}`, `{"a":{"k":{"x":"inner"},"ab":"u"}}`} {
		for _, p := range []string{"a.k", "a.ab", "k"} {
			for _, nm := range []string{"k.x", "ab[0]", "k.", "x"} {
				if !c.Mine() {
					continue
				}
				c.S.States++
				c.S.Evaluations++
				c11Check(c, fromJSON(js).(map[string]interface{}), "rename", p, nm)
				c.S.Schedules++
				c.S.Validated++
			}
		}
	}
	// values of the named type mxj.Map nested in a Map (a caller may build that): the path functions do not
	// walk through them, so every operation below one must fail without touching anything
	typed := []func() map[string]interface{}{
		func() map[string]interface{} { return map[string]interface{}{"a": mxj.Map{"k": "v"}} },
		func() map[string]interface{} {
			return map[string]interface{}{"a": mxj.Map{"ab": map[string]interface{}{"k": "v"}, "k": "w"}, "k": "v"}
		},
		func() map[string]interface{} {
			return map[string]interface{}{"a": map[string]interface{}{"ab": mxj.Map{"k": "v"}}}
		},
	}
	for _, mk := range typed {
		for _, p := range paths {
			for _, o := range ops {
				if !c.Mine() {
					continue
				}
				c.S.States++
				c.S.Evaluations++
				c11Check(c, mk(), o.op, p, o.name)
				c.S.Schedules++
				c.S.Validated++
			}
		}
	}
	// operation sequences on one Map (states other than freshly built ones): every sequence of 3 operations
	// from a reduced alphabet on every nested-map template, the oracle applied at every step
	gs := newGen(GenP{Keys: []string{"a", "ab", "k"}, MaxList: 0, MaxKeys: 2, EmptyMap: true, Leaves: []interface{}{"v"}})
	var alpha []c11Op
	for _, p := range []string{"a", "ab", "a.ab", "a.ab.k", "z"} {
		alpha = append(alpha, c11Op{"set", p, ""}, c11Op{"remove", p, ""}, c11Op{"rename", p, "z"}, c11Op{"rename", p, "ab"})
	}
	ns := 4
	if c.Thorough {
		ns = 5
	}
	gs.rootMaps(ns, func(t *T) {
		map0 := jsonOf(inst(t, nil))
		for _, o1 := range alpha {
			for _, o2 := range alpha {
				for _, o3 := range alpha {
					if !c.Mine() {
						continue
					}
					c.S.States++
					c.S.Evaluations++
					m := inst(t, nil).(map[string]interface{})
					c11Hist = &c11HistT{map0: map0}
					any := false
					for _, o := range []c11Op{o1, o2, o3} {
						if c11Check(c, m, o.Op, o.Path, o.Name) {
							any = true
						}
						c11Hist.ops = append(c11Hist.ops, o)
					}
					c11Hist = nil
					c.S.Schedules++
					c.S.Validated++
					if any {
						c.S.Nontrivial++
					}
				}
			}
		}
		if c.Shard == 0 {
			c.Count("sequence_start_maps", 1)
		}
	})
}

// atLoc returns the value at a location produced by refLocs ("/key" map entry, "/#i" list member).
func atLoc(root interface{}, loc string) interface{} {
	cur := root
	if loc == "" {
		return cur
	}
	for _, seg := range strings.Split(loc[1:], "/") {
		if strings.HasPrefix(seg, "#") {
			l, ok := cur.([]interface{})
			i, _ := strconv.Atoi(seg[1:])
			if !ok || i >= len(l) {
				return nil
			}
			cur = l[i]
		} else {
			m, ok := cur.(map[string]interface{})
			if !ok {
				return nil
			}
			cur = m[seg]
		}
	}
	return cur
}
