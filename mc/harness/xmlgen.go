package main

import (
	"strings"
)

// U-XML: abstract XML documents, their renderings, and the enumerators over them.

// XAttr is an attribute: optional namespace prefix, local name, value.
type XAttr struct {
	Prefix string `json:"p,omitempty"`
	Local  string `json:"n"`
	Value  string `json:"v"`
}

func (a XAttr) qname() string {
	if a.Prefix != "" {
		return a.Prefix + ":" + a.Local
	}
	return a.Local
}

// XItem is one child item of an element.
type XItem struct {
	Kind   byte   `json:"k"`           // 'e' element, 't' text, 'c' comment, 'p' procinst, 'd' directive
	Elem   *XElem `json:"e,omitempty"` // for 'e'
	Text   string `json:"t,omitempty"` // text / comment body / directive body / PI instruction
	Target string `json:"g,omitempty"` // PI target
	CData  bool   `json:"cd,omitempty"`
	Split  int    `json:"sp,omitempty"`  // text written in two pieces side by side: n>0 plain Text[:n] then CDATA, n<0 CDATA Text[:-n] then plain
	Split2 int    `json:"sp2,omitempty"` // with Split: a third piece Text[Split2:] of the same kind as the first one (the middle piece is Text[|Split|:Split2])
}

// XElem is an element.
type XElem struct {
	Prefix string  `json:"p,omitempty"`
	Local  string  `json:"n"`
	Attrs  []XAttr `json:"a,omitempty"`
	Items  []XItem `json:"i,omitempty"`
}

func (e *XElem) qname() string {
	if e.Prefix != "" {
		return e.Prefix + ":" + e.Local
	}
	return e.Local
}

func (e *XElem) clone() *XElem {
	c := &XElem{Prefix: e.Prefix, Local: e.Local}
	c.Attrs = append([]XAttr(nil), e.Attrs...)
	for _, it := range e.Items {
		n := it
		if it.Elem != nil {
			n.Elem = it.Elem.clone()
		}
		c.Items = append(c.Items, n)
	}
	return c
}

// elems lists all elements in document order.
func (e *XElem) elems() []*XElem {
	r := []*XElem{e}
	for _, it := range e.Items {
		if it.Kind == 'e' {
			r = append(r, it.Elem.elems()...)
		}
	}
	return r
}

func (e *XElem) childElems() int {
	n := 0
	for _, it := range e.Items {
		if it.Kind == 'e' {
			n++
		}
	}
	return n
}

func xmlEsc(s string, attr bool) string {
	var sb strings.Builder
	for _, r := range s {
		switch r {
		case '&':
			sb.WriteString("&amp;")
		case '<':
			sb.WriteString("&lt;")
		case '>':
			sb.WriteString("&gt;")
		case '"':
			if attr {
				sb.WriteString("&quot;")
			} else {
				sb.WriteRune(r)
			}
		case '\'':
			if attr {
				sb.WriteString("&apos;")
			} else {
				sb.WriteRune(r)
			}
		case '\n':
			if attr {
				sb.WriteString("&#xA;")
			} else {
				sb.WriteRune(r)
			}
		case '\t':
			if attr {
				sb.WriteString("&#x9;")
			} else {
				sb.WriteRune(r)
			}
		case '\r':
			// a literal carriage return is normalised to a line feed by every XML parser, in text and in
			// attribute values alike: the document that denotes a CR spells it as a character reference
			sb.WriteString("&#xD;")
		default:
			sb.WriteRune(r)
		}
	}
	return sb.String()
}

// Rendering variants (document level).
const (
	rvDefault  = iota // compact, double quotes, <a/> for empty elements
	rvOpenEnd         // <a></a> for empty elements
	rvSingleQ         // single-quoted attribute values
	rvTagBlank        // blanks inside tags
	rvWsNL            // "\n" between items
	rvWsNLTab         // "\n\t" between items
	rvProlog          // XML declaration, comment and DOCTYPE before the root; comment after it
	rvCharRef         // first letter of every text run / attribute value as a character reference
	rvWsSpace         // " " between items (only meaningful when blanks are trimmed)
	rvWsNLSp          // "\n  " between items (ditto)
	rvCount
)

var rvNames = []string{"default", "open-end", "single-quote", "tag-blanks", "ws-nl", "ws-nl-tab", "prolog", "char-ref", "ws-space", "ws-nl-space"}

func renderDoc(root *XElem, rv int) string {
	var sb strings.Builder
	if rv == rvProlog {
		sb.WriteString("<?xml version=\"1.0\" encoding=\"UTF-8\"?>\n<!-- lead -->\n<!DOCTYPE " + root.qname() + ">\n")
	}
	renderElem(&sb, root, rv)
	if rv == rvProlog {
		sb.WriteString("\n<!-- trail -->\n")
	}
	return sb.String()
}

func charRef(s string) string {
	// render the first ASCII letter/digit as a hexadecimal character reference
	for i, r := range s {
		if (r >= 'a' && r <= 'z') || (r >= 'A' && r <= 'Z') || (r >= '0' && r <= '9') {
			const hexd = "0123456789ABCDEF"
			return s[:i] + "&#x" + string(hexd[r>>4]) + string(hexd[r&15]) + ";" + s[i+1:]
		}
		if r == '&' {
			break
		}
	}
	return s
}

func renderElem(sb *strings.Builder, e *XElem, rv int) {
	q := `"`
	if rv == rvSingleQ {
		q = `'`
	}
	sb.WriteString("<" + e.qname())
	for _, a := range e.Attrs {
		sb.WriteString(" ")
		if rv == rvTagBlank {
			sb.WriteString(" ")
		}
		v := xmlEsc(a.Value, true)
		if rv == rvCharRef {
			v = charRef(v)
		}
		if rv == rvTagBlank {
			sb.WriteString(a.qname() + " = " + q + v + q)
		} else {
			sb.WriteString(a.qname() + "=" + q + v + q)
		}
	}
	if rv == rvTagBlank {
		sb.WriteString(" ")
	}
	if len(e.Items) == 0 {
		if rv == rvOpenEnd {
			sb.WriteString("></" + e.qname() + ">")
		} else {
			sb.WriteString("/>")
		}
		return
	}
	sb.WriteString(">")
	ws := ""
	switch rv {
	case rvWsNL:
		ws = "\n"
	case rvWsNLTab:
		ws = "\n\t"
	case rvWsSpace:
		ws = " "
	case rvWsNLSp:
		ws = "\n  "
	}
	// whitespace only where neither neighbour is a text run, and only in elements
	// that have at least one non-text item
	nonText := false
	for _, it := range e.Items {
		if it.Kind != 't' {
			nonText = true
		}
	}
	for i, it := range e.Items {
		if ws != "" && nonText && it.Kind != 't' && (i == 0 || e.Items[i-1].Kind != 't') {
			sb.WriteString(ws)
		}
		switch it.Kind {
		case 'e':
			renderElem(sb, it.Elem, rv)
		case 't':
			if it.Split != 0 {
				n, plainFirst := it.Split, true
				if n < 0 {
					n, plainFirst = -n, false
				}
				a, b, t3 := it.Text[:n], it.Text[n:], ""
				if it.Split2 > n {
					b, t3 = it.Text[n:it.Split2], it.Text[it.Split2:]
				}
				if plainFirst {
					sb.WriteString(xmlEsc(a, false) + "<![CDATA[" + b + "]]>")
					if it.Split2 > n {
						sb.WriteString(xmlEsc(t3, false))
					}
				} else {
					sb.WriteString("<![CDATA[" + a + "]]>" + xmlEsc(b, false))
					if it.Split2 > n {
						sb.WriteString("<![CDATA[" + t3 + "]]>")
					}
				}
			} else if it.CData {
				sb.WriteString("<![CDATA[" + it.Text + "]]>")
			} else {
				v := xmlEsc(it.Text, false)
				if rv == rvCharRef {
					v = charRef(v)
				}
				sb.WriteString(v)
			}
		case 'c':
			sb.WriteString("<!--" + it.Text + "-->")
		case 'p':
			sb.WriteString("<?" + it.Target + " " + it.Text + "?>")
		case 'd':
			sb.WriteString("<!" + it.Text + ">")
		}
	}
	if ws != "" && nonText && e.Items[len(e.Items)-1].Kind != 't' {
		sb.WriteString(ws)
	}
	if rv == rvTagBlank {
		sb.WriteString("</" + e.qname() + " >")
	} else {
		sb.WriteString("</" + e.qname() + ">")
	}
}

// ---------------------------------------------------------------- base shapes

// baseTrees enumerates all element trees with exactly n elements whose root is named
// rootName and whose other elements are named from names, simplest first.
func baseTrees(n int, rootName string, names []string, maxKids int) []*XElem {
	// forests(k): all ordered forests with k nodes
	type forest = []*XElem
	memo := map[int][]forest{}
	var forests func(k int) []forest
	var trees func(k int) []*XElem
	treeMemo := map[int][]*XElem{}
	trees = func(k int) []*XElem {
		if r, ok := treeMemo[k]; ok {
			return r
		}
		var r []*XElem
		for _, nm := range names {
			for _, f := range forests(k - 1) {
				if len(f) > maxKids {
					continue
				}
				e := &XElem{Local: nm}
				for _, c := range f {
					e.Items = append(e.Items, XItem{Kind: 'e', Elem: c})
				}
				r = append(r, e)
			}
		}
		treeMemo[k] = r
		return r
	}
	forests = func(k int) []forest {
		if r, ok := memo[k]; ok {
			return r
		}
		var r []forest
		if k == 0 {
			r = []forest{nil}
		} else {
			for first := 1; first <= k; first++ {
				for _, t := range trees(first) {
					for _, rest := range forests(k - first) {
						f := append(forest{t}, rest...)
						r = append(r, f)
					}
				}
			}
		}
		memo[k] = r
		return r
	}
	var out []*XElem
	for _, f := range forests(n - 1) {
		if len(f) > maxKids {
			continue
		}
		e := &XElem{Local: rootName}
		for _, c := range f {
			e.Items = append(e.Items, XItem{Kind: 'e', Elem: c.clone()})
		}
		out = append(out, e)
	}
	return out
}

// ---------------------------------------------------------------- decorations

// Deco is one decoration applied to element number El (document order) of a base tree.
type Deco struct {
	Kind   byte   `json:"k"`  // 'a' attribute, 't' text, 'n' rename, 'c' comment, 'p' procinst, 'd' directive
	El     int    `json:"el"` // element index
	Pos    int    `json:"pos,omitempty"`
	Name   string `json:"name,omitempty"`
	Value  string `json:"value,omitempty"`
	CData  bool   `json:"cdata,omitempty"`
	Split  int    `json:"split,omitempty"`
	Split2 int    `json:"split2,omitempty"`
}

func splitQ(q string) (string, string) {
	if i := strings.Index(q, ":"); i >= 0 {
		return q[:i], q[i+1:]
	}
	return "", q
}

// applyDecos returns a decorated deep copy; ok=false if the combination is not in the universe
// (two text runs in one element, duplicate attribute, ...).
func applyDecos(base *XElem, ds []Deco) (*XElem, bool) {
	root := base.clone()
	els := root.elems()
	// items must be inserted by position from the right so earlier positions stay valid:
	// process item decorations per element in descending Pos order
	usesNS := false
	textOn := map[int]bool{}
	type ins struct {
		pos int
		it  XItem
		ord int
	}
	pending := map[int][]ins{}
	for i, d := range ds {
		if d.El >= len(els) {
			return nil, false
		}
		e := els[d.El]
		switch d.Kind {
		case 'a':
			p, l := splitQ(d.Name)
			for _, a := range e.Attrs {
				if a.Local == l {
					return nil, false
				}
			}
			if p != "" && p != "xmlns" {
				usesNS = true
			}
			e.Attrs = append(e.Attrs, XAttr{Prefix: p, Local: l, Value: d.Value})
		case 'n':
			p, l := splitQ(d.Name)
			if p != "" {
				usesNS = true
			}
			e.Prefix, e.Local = p, l
		case 't':
			if textOn[d.El] {
				return nil, false
			}
			textOn[d.El] = true
			pending[d.El] = append(pending[d.El], ins{d.Pos, XItem{Kind: 't', Text: d.Value, CData: d.CData, Split: d.Split, Split2: d.Split2}, i})
		case 'c':
			pending[d.El] = append(pending[d.El], ins{d.Pos, XItem{Kind: 'c', Text: d.Value}, i})
		case 'p':
			pending[d.El] = append(pending[d.El], ins{d.Pos, XItem{Kind: 'p', Target: "pi", Text: d.Value}, i})
		case 'd':
			pending[d.El] = append(pending[d.El], ins{d.Pos, XItem{Kind: 'd', Text: d.Value}, i})
		}
	}
	for el, list := range pending {
		e := els[el]
		nkids := len(e.Items)
		// stable: by pos, then by decoration order
		for i := 0; i < len(list); i++ {
			for j := i + 1; j < len(list); j++ {
				if list[j].pos < list[i].pos || (list[j].pos == list[i].pos && list[j].ord < list[i].ord) {
					list[i], list[j] = list[j], list[i]
				}
			}
		}
		var items []XItem
		k := 0
		for pos := 0; pos <= nkids; pos++ {
			for k < len(list) && list[k].pos == pos {
				items = append(items, list[k].it)
				k++
			}
			if pos < nkids {
				items = append(items, e.Items[pos])
			}
		}
		if k != len(list) {
			return nil, false // position beyond the children
		}
		// a text run directly beside another text run would merge: not generated
		e.Items = items
	}
	if usesNS {
		// declare the prefix on the root (first, so attribute order on the root is xmlns first)
		root.Attrs = append([]XAttr{{Prefix: "xmlns", Local: "n", Value: "urn:n"}}, root.Attrs...)
	}
	return root, true
}
