package main

import (
	"encoding/json"
	"fmt"
	"math"
	"reflect"
	"sort"
	"strconv"
	"strings"

	mxj "github.com/clbanning/mxj/v2"
	rt "github.com/clbanning/mxj/v2/zzverifrt"
)

// ---------------------------------------------------------------- canonical dump

// dump renders a value canonically, with type tags, keys sorted. Two values are
// "deep equal" for this framework iff their dumps are equal (NaN equals NaN).
func dump(v interface{}) string {
	var sb strings.Builder
	dumpTo(&sb, v, 0)
	return sb.String()
}

func dumpTo(sb *strings.Builder, v interface{}, depth int) {
	if depth > 60 {
		sb.WriteString("<too-deep-or-cyclic>")
		return
	}
	switch t := v.(type) {
	case nil:
		sb.WriteString("null")
	case string:
		sb.WriteString(strconv.Quote(t))
	case float64:
		sb.WriteString("f:")
		if math.IsNaN(t) {
			sb.WriteString("NaN")
		} else {
			sb.WriteString(strconv.FormatFloat(t, 'g', -1, 64))
		}
	case bool:
		if t {
			sb.WriteString("true")
		} else {
			sb.WriteString("false")
		}
	case int:
		sb.WriteString("i:" + strconv.Itoa(t))
	case int64:
		sb.WriteString("i64:" + strconv.FormatInt(t, 10))
	case uint64:
		sb.WriteString("u64:" + strconv.FormatUint(t, 10))
	case json.Number:
		sb.WriteString("n:" + string(t))
	case map[string]interface{}:
		dumpMap(sb, t, depth)
	case mxj.Map:
		dumpMap(sb, t, depth)
	case mxj.MapSeq:
		dumpMap(sb, t, depth)
	case []interface{}:
		if t == nil {
			// a nil list is observably different from an empty one (JSON null vs [])
			sb.WriteString("nillist")
			return
		}
		sb.WriteByte('[')
		for i, e := range t {
			if i > 0 {
				sb.WriteByte(',')
			}
			dumpTo(sb, e, depth+1)
		}
		sb.WriteByte(']')
	case []byte:
		sb.WriteString("bytes:" + strconv.Quote(string(t)))
	default:
		fmt.Fprintf(sb, "%T:%#v", v, v)
	}
}

func dumpMap(sb *strings.Builder, m map[string]interface{}, depth int) {
	if m == nil {
		sb.WriteString("nilmap")
		return
	}
	keys := make([]string, 0, len(m))
	for k := range m {
		keys = append(keys, k)
	}
	sort.Strings(keys)
	sb.WriteByte('{')
	for i, k := range keys {
		if i > 0 {
			sb.WriteByte(',')
		}
		sb.WriteString(strconv.Quote(k))
		sb.WriteByte(':')
		dumpTo(sb, m[k], depth+1)
	}
	sb.WriteByte('}')
}

// deepEq: fast path reflect.DeepEqual, slow path dump comparison (NaN, Map vs map).
func deepEq(a, b interface{}) bool {
	if reflect.DeepEqual(a, b) {
		return true
	}
	return dump(a) == dump(b)
}

// dumps of a list of values, as sequence or as sorted multiset.
func dumpSeq(vs []interface{}) []string {
	r := make([]string, len(vs))
	for i, v := range vs {
		r[i] = dump(v)
	}
	return r
}

func sortedCopy(s []string) []string {
	r := append([]string(nil), s...)
	sort.Strings(r)
	return r
}

func eqStrings(a, b []string) bool {
	if len(a) != len(b) {
		return false
	}
	for i := range a {
		if a[i] != b[i] {
			return false
		}
	}
	return true
}

// deepCopy of JSON-shaped values (maps, lists, scalars).
func deepCopy(v interface{}) interface{} {
	switch t := v.(type) {
	case map[string]interface{}:
		if t == nil {
			return t
		}
		m := make(map[string]interface{}, len(t))
		for k, e := range t {
			m[k] = deepCopy(e)
		}
		return m
	case mxj.Map:
		return mxj.Map(deepCopy(map[string]interface{}(t)).(map[string]interface{}))
	case mxj.MapSeq:
		return mxj.MapSeq(deepCopy(map[string]interface{}(t)).(map[string]interface{}))
	case []interface{}:
		if t == nil {
			return t
		}
		l := make([]interface{}, len(t))
		for i, e := range t {
			l[i] = deepCopy(e)
		}
		return l
	default:
		return v
	}
}

// withSpare deep-copies v giving every list one spare slot of capacity (like inst and like lists
// grown by append), so that a replayed case has the same backing-array shape as the explored one.
func withSpare(v interface{}) interface{} {
	switch t := v.(type) {
	case map[string]interface{}:
		m := make(map[string]interface{}, len(t))
		for k, e := range t {
			m[k] = withSpare(e)
		}
		return m
	case []interface{}:
		l := make([]interface{}, len(t), len(t)+1)
		for i, e := range t {
			l[i] = withSpare(e)
		}
		return l
	}
	return v
}

// globalWrites runs f with the package-variable access log on and returns the variables written.
func globalWrites(f func()) []string {
	rt.ResetGlobals()
	rt.LogGlobals = true
	defer func() { rt.LogGlobals = false }()
	f()
	return rt.WrittenGlobals()
}

func short(s string, n int) string {
	if len(s) <= n {
		return s
	}
	return s[:n] + "…"
}

func jsonOf(v interface{}) string {
	b, err := json.Marshal(v)
	if err != nil {
		return dump(v)
	}
	return string(b)
}

// fromJSON parses a JSON text into interface{} (float64 numbers).
func fromJSON(s string) interface{} {
	var v interface{}
	if err := json.Unmarshal([]byte(s), &v); err != nil {
		panic("fromJSON: " + err.Error() + ": " + s)
	}
	return v
}

// scribble overwrites an input buffer after the call that consumed it: a result must not share memory
// with the caller's input (the caller may reuse its buffer).
func scribble(b []byte) {
	for i := range b {
		b[i] = '#'
	}
}

// guardedInput hands a decoder its input as a sub-slice of a larger buffer (spare capacity filled with a
// sentinel pattern, as when a caller decodes buf[:n]); check reports a write into the input or past its end.
func guardedInput(text string) (in []byte, check func() string) {
	const tail = 24
	buf := make([]byte, len(text)+tail)
	copy(buf, text)
	for i := len(text); i < len(buf); i++ {
		buf[i] = 0xA5
	}
	in = buf[:len(text)]
	check = func() string {
		if string(buf[:len(text)]) != text {
			return fmt.Sprintf("the call modified its input: %q became %q", text, buf[:len(text)])
		}
		for i := len(text); i < len(buf); i++ {
			if buf[i] != 0xA5 {
				return fmt.Sprintf("the call wrote past the end of its input slice (into the caller's spare capacity): bytes after the input are now %q", buf[len(text):])
			}
		}
		return ""
	}
	return
}

// untype / retype: numbers of Go types other than float64 inside a value are written into case files as
// marked strings, so that a replay rebuilds the very same Go types (JSON alone would turn them into float64).
func untype(v interface{}) interface{} {
	switch t := v.(type) {
	case map[string]interface{}:
		m := make(map[string]interface{}, len(t))
		for k, e := range t {
			m[k] = untype(e)
		}
		return m
	case []interface{}:
		if t == nil {
			return "\x01go:nillist:" // a nil list is not an empty one (gob returns empty lists as nil)
		}
		l := make([]interface{}, len(t))
		for i, e := range t {
			l[i] = untype(e)
		}
		return l
	case int:
		return "\x01go:int:" + strconv.Itoa(t)
	case int64:
		return "\x01go:int64:" + strconv.FormatInt(t, 10)
	case int32:
		return "\x01go:int32:" + strconv.FormatInt(int64(t), 10)
	case uint8:
		return "\x01go:uint8:" + strconv.Itoa(int(t))
	case uint64:
		return "\x01go:uint64:" + strconv.FormatUint(t, 10)
	case float32:
		return "\x01go:float32:" + strconv.FormatFloat(float64(t), 'g', -1, 32)
	case json.Number:
		return "\x01go:number:" + string(t)
	case []byte:
		return "\x01go:bytes:" + string(t)
	case float64:
		if math.IsNaN(t) || math.IsInf(t, 0) {
			return "\x01go:float64:" + strconv.FormatFloat(t, 'g', -1, 64) // JSON has no spelling for these
		}
	}
	return v
}

// byteBackings collects the backing arrays of the []byte values inside v.
func byteBackings(v interface{}, into map[uintptr]bool) {
	switch t := v.(type) {
	case map[string]interface{}:
		for _, e := range t {
			byteBackings(e, into)
		}
	case []interface{}:
		for _, e := range t {
			byteBackings(e, into)
		}
	case []byte:
		if cap(t) > 0 {
			into[reflect.ValueOf(t).Pointer()] = true
		}
	}
}

func retype(v interface{}) interface{} {
	switch t := v.(type) {
	case map[string]interface{}:
		for k, e := range t {
			t[k] = retype(e)
		}
		return t
	case []interface{}:
		for i, e := range t {
			t[i] = retype(e)
		}
		return t
	case string:
		if !strings.HasPrefix(t, "\x01go:") {
			return t
		}
		p := strings.SplitN(t[len("\x01go:"):], ":", 2)
		switch p[0] {
		case "int":
			n, _ := strconv.Atoi(p[1])
			return n
		case "int64":
			n, _ := strconv.ParseInt(p[1], 10, 64)
			return n
		case "int32":
			n, _ := strconv.ParseInt(p[1], 10, 32)
			return int32(n)
		case "uint8":
			n, _ := strconv.Atoi(p[1])
			return uint8(n)
		case "uint64":
			n, _ := strconv.ParseUint(p[1], 10, 64)
			return n
		case "float32":
			f, _ := strconv.ParseFloat(p[1], 32)
			return float32(f)
		case "number":
			return json.Number(p[1])
		case "bytes":
			return []byte(p[1])
		case "nillist":
			return []interface{}(nil)
		case "float64":
			f, _ := strconv.ParseFloat(p[1], 64)
			return f
		}
	}
	return v
}
