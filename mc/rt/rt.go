// Package zzverifrt is the hook runtime linked into the instrumented copy of
// mxj (virtual package github.com/clbanning/mxj/v2/zzverifrt, supplied through
// `go build -overlay`; nothing is ever written to /repo).
//
// It owns the nondeterminism the rewritten mxj code delegates to it:
//   - map iteration order (IterSI / IterAny)
//   - scheduling points (Yield)
//   - the access log of package-level variables (Global)
//   - the write monitor for frozen containers (StoreMap / StoreIdx / StoreAppend)
//
// No generics: mxj's go.mod says go 1.15.
package zzverifrt

import (
	"fmt"
	"reflect"
	"sort"
	"unsafe"
)

// ---------------------------------------------------------------- choices

// Choice kinds (recorded so that a replayed prefix can be validated).
const (
	KindOrder = 1 // permutation of a map's key set
	KindRead  = 2 // answer of a scripted reader
	KindSched = 3 // next thread
	KindFault = 4 // fault offset / kind
	KindWrite = 5 // answer of a scripted writer
)

// Chooser decides a choice point: kind, arity n (n >= 2) -> value in [0,n).
// nil means "always 0".
var Chooser func(kind, n int) int

// Choose is the single primitive every owned source of nondeterminism goes through.
func Choose(kind, n int) int {
	if n <= 1 || Chooser == nil {
		return 0
	}
	c := Chooser(kind, n)
	if c < 0 || c >= n {
		panic(fmt.Sprintf("zzverifrt: chooser returned %d for arity %d", c, n))
	}
	return c
}

// ---------------------------------------------------------------- map order

// Order policies.
const (
	PolicySorted  = 0 // ascending keys, no choice points
	PolicyReverse = 1 // descending keys, no choice points
	PolicyChoose  = 2 // every range over a map with >= 2 keys is a choice point
)

// OrderPolicy selects how rewritten range-over-map loops order their keys.
var OrderPolicy = PolicySorted

// RangeSites counts executed range-over-map loops (all sizes); RangeMulti those with >= 2 keys.
var RangeSites, RangeMulti int64

// MaxFullPerm: key sets up to this size get all n! orders as alternatives,
// larger ones the capped set (sorted, reversed, rotations, adjacent transpositions).
const MaxFullPerm = 4

// OrderCapped is set when a key set larger than MaxFullPerm met PolicyChoose.
var OrderCapped bool

func fact(n int) int {
	f := 1
	for i := 2; i <= n; i++ {
		f *= i
	}
	return f
}

// NumOrders is the arity of the order choice for n keys.
func NumOrders(n int) int {
	if n <= 1 {
		return 1
	}
	if n <= MaxFullPerm {
		return fact(n)
	}
	// sorted(1) + reversed(1) + rotations(n-1) + adjacent transpositions(n-1)
	return 2 + 2*(n-1)
}

// permute reorders the sorted keys according to choice c.
func permute(keys []string, c int) {
	n := len(keys)
	if c == 0 || n <= 1 {
		return
	}
	if n <= MaxFullPerm {
		// c-th permutation in lexicographic order (factorial number system)
		src := append([]string(nil), keys...)
		f := fact(n)
		for i := 0; i < n; i++ {
			f /= (n - i)
			idx := c / f
			c %= f
			keys[i] = src[idx]
			src = append(src[:idx], src[idx+1:]...)
		}
		return
	}
	switch {
	case c == 1: // reversed
		for i, j := 0, n-1; i < j; i, j = i+1, j-1 {
			keys[i], keys[j] = keys[j], keys[i]
		}
	case c < 1+n: // rotation by c-1 (1..n-1)
		r := c - 1
		src := append([]string(nil), keys...)
		for i := 0; i < n; i++ {
			keys[i] = src[(i+r)%n]
		}
	default: // adjacent transposition at position c-(1+n) (0..n-2)
		p := c - (1 + n)
		keys[p], keys[p+1] = keys[p+1], keys[p]
	}
}

func orderKeys(keys []string) {
	RangeSites++
	n := len(keys)
	if n < 2 {
		return
	}
	RangeMulti++
	sort.Strings(keys)
	switch OrderPolicy {
	case PolicyReverse:
		for i, j := 0, n-1; i < j; i, j = i+1, j-1 {
			keys[i], keys[j] = keys[j], keys[i]
		}
	case PolicyChoose:
		if n > MaxFullPerm {
			OrderCapped = true
		}
		permute(keys, Choose(KindOrder, NumOrders(n)))
	}
}

// SI iterates a map[string]interface{} in an owned order. Semantics follow the
// Go spec for range over a map: the key set is the one present at loop entry,
// an entry removed before it is reached is not produced, values are read when
// the entry is produced.
type SI struct {
	m    map[string]interface{}
	keys []string
	i    int
	K    string
	V    interface{}
}

// IterSI starts an iteration.
func IterSI(m map[string]interface{}) *SI {
	it := &SI{m: m}
	if len(m) > 0 {
		it.keys = make([]string, 0, len(m))
		for k := range m {
			it.keys = append(it.keys, k)
		}
		orderKeys(it.keys)
	} else {
		RangeSites++
	}
	return it
}

// Next advances; false when exhausted.
func (it *SI) Next() bool {
	for it.i < len(it.keys) {
		k := it.keys[it.i]
		it.i++
		v, ok := it.m[k]
		if !ok {
			continue
		}
		it.K, it.V = k, v
		Yield(0)
		return true
	}
	return false
}

// Any iterates an arbitrary map through reflection (keys ordered by their %v text).
type Any struct {
	m    reflect.Value
	keys []reflect.Value
	i    int
	K    interface{}
	V    interface{}
}

// IterAny starts an iteration over any map value.
func IterAny(m interface{}) *Any {
	it := &Any{m: reflect.ValueOf(m)}
	if it.m.Kind() != reflect.Map {
		panic("zzverifrt.IterAny: not a map")
	}
	ks := it.m.MapKeys()
	names := make([]string, len(ks))
	byName := make(map[string]reflect.Value, len(ks))
	for i, k := range ks {
		names[i] = fmt.Sprintf("%v", k.Interface())
		byName[names[i]] = k
	}
	orderKeys(names)
	if len(names) == 0 {
		// orderKeys already counted the site
	}
	it.keys = make([]reflect.Value, len(names))
	for i, n := range names {
		it.keys[i] = byName[n]
	}
	return it
}

// Next advances; false when exhausted.
func (it *Any) Next() bool {
	for it.i < len(it.keys) {
		k := it.keys[it.i]
		it.i++
		v := it.m.MapIndex(k)
		if !v.IsValid() {
			continue
		}
		it.K, it.V = k.Interface(), v.Interface()
		Yield(0)
		return true
	}
	return false
}

// ---------------------------------------------------------------- scheduling

// Sched, when non-nil, is called at every scheduling point.
var Sched func(site int)

// Yields counts scheduling points executed while counting is on.
var Yields int64

// Budget, when positive, is the number of scheduling points (function entries, loop back-edges, calls) the
// current guarded API call may still pass; reaching zero panics with BudgetExhausted. It is the horizon that
// turns unbounded recursion or a loop that never ends into a reportable event instead of a dead worker.
var Budget int64

// BudgetExhausted is the panic value raised when Budget runs out.
type BudgetExhausted struct{ Site int }

// Yield is a scheduling point (function entry, loop back-edge, global access).
func Yield(site int) {
	if Budget > 0 {
		if Budget--; Budget == 0 {
			panic(BudgetExhausted{site})
		}
	}
	if Sched != nil {
		Yields++
		Sched(site)
	}
}

// ---------------------------------------------------------------- global access log

// GlobalNames is filled by the generated file in package mxj: id -> variable name.
var GlobalNames []string

// LogGlobals switches the access log on.
var LogGlobals bool

// GlobalReads / GlobalWrites: id -> count since the last ResetGlobals.
var GlobalReads, GlobalWrites []int32

// ResetGlobals clears the access log.
func ResetGlobals() {
	if len(GlobalReads) < len(GlobalNames) {
		GlobalReads = make([]int32, len(GlobalNames))
		GlobalWrites = make([]int32, len(GlobalNames))
		return
	}
	for i := range GlobalReads {
		GlobalReads[i] = 0
		GlobalWrites[i] = 0
	}
}

// Global records an access to package-level variable id.
func Global(id int, write bool) {
	if LogGlobals {
		if id >= len(GlobalReads) {
			ResetGlobals()
		}
		if write {
			GlobalWrites[id]++
		} else {
			GlobalReads[id]++
		}
	}
	if Sched != nil {
		Yield(1000 + id)
	}
}

// WrittenGlobals lists the names written since the last reset.
func WrittenGlobals() []string {
	var r []string
	for i, c := range GlobalWrites {
		if c > 0 {
			r = append(r, GlobalNames[i])
		}
	}
	return r
}

// ReadGlobals lists the names read since the last reset.
func ReadGlobals() []string {
	var r []string
	for i, c := range GlobalReads {
		if c > 0 {
			r = append(r, GlobalNames[i])
		}
	}
	return r
}

// ---------------------------------------------------------------- write monitor

type span struct{ lo, hi uintptr }

var (
	frozenMaps  map[uintptr]bool
	frozenSpans []span
	// FrozenWrites collects a description of every store into a frozen container.
	FrozenWrites []string
	// Monitoring is true while at least one container is frozen.
	Monitoring bool
)

// Unfreeze forgets all frozen containers and recorded writes.
func Unfreeze() {
	frozenMaps = nil
	frozenSpans = nil
	FrozenWrites = nil
	Monitoring = false
}

// Freeze registers every map and slice reachable from v as frozen.
func Freeze(v interface{}) {
	if frozenMaps == nil {
		frozenMaps = make(map[uintptr]bool)
	}
	Monitoring = true
	freeze(v)
}

func freeze(v interface{}) {
	switch t := v.(type) {
	case map[string]interface{}:
		p := reflect.ValueOf(t).Pointer()
		if p == 0 || frozenMaps[p] {
			return
		}
		frozenMaps[p] = true
		for _, e := range t {
			freeze(e)
		}
	case []interface{}:
		if cap(t) > 0 {
			// the whole backing array the receiver's list owns, spare capacity included: an append
			// into the spare slots is a write into receiver-owned memory (invisible to a deep
			// comparison, visible to a concurrent reader doing the same)
			full := t[:cap(t)]
			lo := uintptr(unsafe.Pointer(&full[0]))
			frozenSpans = append(frozenSpans, span{lo, lo + uintptr(cap(t))*unsafe.Sizeof(full[0])})
		}
		for _, e := range t {
			freeze(e)
		}
	default:
		rv := reflect.ValueOf(v)
		switch rv.Kind() {
		case reflect.Map:
			p := rv.Pointer()
			if p == 0 || frozenMaps[p] {
				return
			}
			frozenMaps[p] = true
			for _, k := range rv.MapKeys() {
				freeze(rv.MapIndex(k).Interface())
			}
		}
	}
}

// Containers returns the identities (map pointers, slice base addresses) reachable from v.
func Containers(v interface{}, into map[uintptr]bool) {
	switch t := v.(type) {
	case map[string]interface{}:
		p := reflect.ValueOf(t).Pointer()
		if p == 0 || into[p] {
			return
		}
		into[p] = true
		for _, e := range t {
			Containers(e, into)
		}
	case []interface{}:
		if cap(t) > 0 {
			into[uintptr(unsafe.Pointer(&t[:1][0]))] = true
		}
		for _, e := range t {
			Containers(e, into)
		}
	}
}

func inSpan(p uintptr) bool {
	for _, s := range frozenSpans {
		if p >= s.lo && p < s.hi {
			return true
		}
	}
	return false
}

// StoreMap is called before m[k] = v and delete(m, k).
func StoreMap(m interface{}, site string) {
	if !Monitoring {
		return
	}
	rv := reflect.ValueOf(m)
	if rv.Kind() != reflect.Map {
		return
	}
	if frozenMaps[rv.Pointer()] {
		FrozenWrites = append(FrozenWrites, "map store at "+site)
	}
}

// StoreIdx is called before s[i] = v for slices.
func StoreIdx(s interface{}, i int, site string) {
	if !Monitoring {
		return
	}
	if t, ok := s.([]interface{}); ok {
		if i >= 0 && i < len(t) {
			if inSpan(uintptr(unsafe.Pointer(&t[i]))) {
				FrozenWrites = append(FrozenWrites, "slice store at "+site)
			}
		}
	}
}

// StoreAppend is called before append(s, ...): an append that has spare capacity
// writes into the backing array just past len(s).
func StoreAppend(s interface{}, site string) {
	if !Monitoring {
		return
	}
	if t, ok := s.([]interface{}); ok {
		if cap(t) > len(t) {
			e := t[:len(t)+1]
			if inSpan(uintptr(unsafe.Pointer(&e[len(t)]))) {
				FrozenWrites = append(FrozenWrites, "append into frozen backing array at "+site)
			}
		}
	}
}

// ---------------------------------------------------------------- state dump helper

// Dump renders a package-level variable canonically for the option-state vector.
func Dump(v interface{}) string {
	if v == nil {
		return "nil"
	}
	rv := reflect.ValueOf(v)
	switch rv.Kind() {
	case reflect.Func:
		if rv.IsNil() {
			return "func:nil"
		}
		return fmt.Sprintf("func:%x", rv.Pointer())
	case reflect.Ptr:
		if rv.IsNil() {
			return "ptr:nil"
		}
		return "ptr:set"
	case reflect.Interface:
		if rv.IsNil() {
			return "iface:nil"
		}
	}
	if e, ok := v.(error); ok {
		return "error:" + e.Error()
	}
	switch rv.Kind() {
	case reflect.Struct, reflect.Map, reflect.Slice, reflect.Array, reflect.Chan:
		// not option-like: tables, caches, pools, buffers. Reported for information ("aux:") but not part
		// of the option-state vector - a cache that fills up is not an option that changed.
		return fmt.Sprintf("aux:%T", v)
	}
	return fmt.Sprintf("%#v", v)
}
